#!/usr/bin/env python3
"""seedeval.py <worktree> <mdir> <name> <breaks-prop> <check[,check...]> [demo build cmd] [demo run env]

Confirm a seeded change produced by an independent sub-agent, then run our checks on it:
 1. in the agent's scratch worktree: apply the patch, build, `make check` (must stay 11/11),
    build + run the demonstration (must FAIL); revert, rebuild, run it again (must PASS);
 2. apply the patch to /repo, run the named quick checks, undo it (git checkout -- .);
 3. store patch.diff, the demonstration and meta.json under /verif/seeded/<name>/.
"""
import json
import os
import re
import shutil
import subprocess
import sys
import time

VERIF = os.path.dirname(os.path.abspath(__file__))


def sh(cmd, cwd=None, env=None, timeout=1800):
    r = subprocess.run(cmd, shell=True, cwd=cwd, env=env, stdout=subprocess.PIPE, stderr=subprocess.STDOUT, text=True, timeout=timeout)
    return r.returncode, r.stdout


def main():
    wt, mdir, name, prop, checks = sys.argv[1:6]
    build = sys.argv[6] if len(sys.argv) > 6 and sys.argv[6] else \
        "gcc -Wall -I src/include -I . -o {m}/demo.bin {m}/demo.c src/.libs/libivykis.a -lpthread"
    runenv = sys.argv[7] if len(sys.argv) > 7 else ""
    m = os.path.join(wt, mdir)
    patch = os.path.join(m, "patch.diff")
    meta = dict(name=name, breaks_property=prop, source="independent sub-agent, given only the property text and its own worktree",
                confirmed_at=time.strftime("%Y-%m-%d %H:%M:%S"))
    build = build.replace("{m}", mdir)
    run = "%s timeout 120 %s/demo.bin %s" % (runenv, mdir, os.environ.get("SEED_DEMO_ARGS", ""))

    # 1. confirmation in the scratch worktree
    sh("git checkout -- src", cwd=wt)
    rc, out = sh("git apply %s" % patch, cwd=wt)
    if rc:
        print("patch does not apply:", out)
        return 2
    rc, out = sh("make -s -j8 2>&1 | tail -3 && make -s check 2>&1 | grep -E '^# (PASS|FAIL|TOTAL)'", cwd=wt)
    mp = re.search(r"# PASS:\s+(\d+)", out)
    mf = re.search(r"# FAIL:\s+(\d+)", out)
    meta["make_check_with_patch"] = "PASS=%s FAIL=%s" % (mp.group(1) if mp else "?", mf.group(1) if mf else "?")
    rc, out = sh(build, cwd=wt)
    if rc:
        print("demo build failed:", out)
    rc1, out1 = sh(run, cwd=wt)
    meta["demo_with_patch"] = dict(cmd=build + " && " + run, exit=rc1, tail=out1.strip().splitlines()[-4:])
    sh("git checkout -- src", cwd=wt)
    sh("make -s -j8", cwd=wt)
    sh(build, cwd=wt)
    rc0, out0 = sh(run, cwd=wt)
    meta["demo_without_patch"] = dict(exit=rc0, tail=out0.strip().splitlines()[-4:])
    meta["confirmed"] = bool(mp and mp.group(1) == "11" and mf and mf.group(1) == "0" and rc1 != 0 and rc0 == 0)
    print("confirm: make check %s; demo with patch exit=%d, without exit=%d -> %s" % (
        meta["make_check_with_patch"], rc1, rc0, "CONFIRMED" if meta["confirmed"] else "NOT CONFIRMED"))

    # 2. our checks against the change, applied to /repo and undone straight afterwards
    rc, out = sh("git -C /repo apply %s" % patch)
    if rc:
        print("patch does not apply to /repo:", out)
        return 2
    results = {}
    try:
        for c in checks.split(","):
            t0 = time.time()
            rc, out = sh("./check %s quick" % c, cwd=VERIF, env=dict(os.environ, VERIF_RUNS=os.environ.get("SEED_RUNS", "")) if os.environ.get("SEED_RUNS") else None)
            vids = re.findall(r"^  id=(\S+)", out, re.M)
            summ = [l for l in out.splitlines() if l.startswith("SUMMARY")]
            results[c] = dict(exit=rc, caught=rc == 1, violation_ids=sorted(set(vids)), wall_s=round(time.time() - t0, 1),
                              summary=summ[-1] if summ else "")
            print("check %s: exit=%d ids=%s" % (c, rc, sorted(set(vids))))
    finally:
        sh("git -C /repo checkout -- .")
    meta["checks"] = results
    meta["caught_by"] = [c for c, r in results.items() if r["caught"]]

    # 3. store
    dst = os.path.join(VERIF, "seeded", name)
    os.makedirs(dst, exist_ok=True)
    for f in os.listdir(m):
        if f.endswith(".bin"):
            continue
        src = os.path.join(m, f)
        if os.path.isfile(src) and os.path.getsize(src) < 200000:
            shutil.copy(src, os.path.join(dst, f))
    with open(os.path.join(dst, "meta.json"), "w") as f:
        json.dump(meta, f, indent=1)
    return 0


if __name__ == "__main__":
    sys.exit(main())
