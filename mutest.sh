#!/bin/sh
# usage: mutest.sh <patch> <prop> [runs]  -- apply a patch to /repo, run the quick check, undo
p=$1; prop=$2; runs=${3:-6000}
git -C /repo apply "$p" || { echo "APPLY FAILED $p"; exit 2; }
VERIF_RUNS=$runs /verif/check $prop quick 2>&1 | grep -E "^VIOLATION|^  id=|^SUMMARY|^KNOWN|MACHINERY" | head -8
git -C /repo checkout -- .
