/* config.h.  Generated from config.h.in by configure.  */
/* config.h.in.  Generated from configure.ac by autoheader.  */

/* Define to 1 if you have the `clock_gettime' function. */
#define HAVE_CLOCK_GETTIME 1

/* Define to 1 if system has CLOCK_MONOTONIC */
#define HAVE_CLOCK_MONOTONIC 1

/* Define to 1 if system has CLOCK_MONOTONIC_FAST */
/* #undef HAVE_CLOCK_MONOTONIC_FAST */

/* Define to 1 if system has CLOCK_REALTIME */
#define HAVE_CLOCK_REALTIME 1

/* Define to 1 if you have the <dlfcn.h> header file. */
#define HAVE_DLFCN_H 1

/* Define to 1 if you have the `epoll_create' function. */
#define HAVE_EPOLL_CREATE 1

/* Define to 1 if you have the `epoll_create1' function. */
#define HAVE_EPOLL_CREATE1 1

/* Define to 1 if you have the `epoll_pwait2' function. */
#define HAVE_EPOLL_PWAIT2 1

/* Define to 1 if you have the `eventfd' function. */
#define HAVE_EVENTFD 1

/* Define to 1 if you have the `gettid' function. */
#define HAVE_GETTID 1

/* Define to 1 if you have the `inotify_init' function. */
#define HAVE_INOTIFY_INIT 1

/* Define to 1 if you have the <inttypes.h> header file. */
#define HAVE_INTTYPES_H 1

/* Define to 1 if you have the `kqueue' function. */
/* #undef HAVE_KQUEUE */

/* Define to 1 if you have the `c_nonshared' library. */
#define HAVE_LIBC_NONSHARED 1

/* Define to 1 if you have the `pthread_nonshared' library
   (-lpthread_nonshared). */
#define HAVE_LIBPTHREAD_NONSHARED 1

/* Define to 1 if you have the `lwp_gettid' function. */
/* #undef HAVE_LWP_GETTID */

/* Define to 1 if you have the `pipe2' function. */
#define HAVE_PIPE2 1

/* Define to 1 if you have the `port_create' function. */
/* #undef HAVE_PORT_CREATE */

/* Define to 1 if you have the `ppoll' function. */
#define HAVE_PPOLL 1

/* Define to 1 if system has a working pragma weak */
#define HAVE_PRAGMA_WEAK 1

/* Define to 1 if you have the <process.h> header file. */
/* #undef HAVE_PROCESS_H */

/* Define to 1 if you have the pthread_spin_trylock function */
#define HAVE_PTHREAD_SPIN_TRYLOCK 1

/* Define to 1 if you have the `splice' function. */
#define HAVE_SPLICE 1

/* Define to 1 if you have the <stdint.h> header file. */
#define HAVE_STDINT_H 1

/* Define to 1 if you have the <stdio.h> header file. */
#define HAVE_STDIO_H 1

/* Define to 1 if you have the <stdlib.h> header file. */
#define HAVE_STDLIB_H 1

/* Define to 1 if you have the <strings.h> header file. */
#define HAVE_STRINGS_H 1

/* Define to 1 if you have the <string.h> header file. */
#define HAVE_STRING_H 1

/* Define to 1 if you have the <sys/devpoll.h> header file. */
/* #undef HAVE_SYS_DEVPOLL_H */

/* Define to 1 if you have the <sys/eventfd.h> header file. */
#define HAVE_SYS_EVENTFD_H 1

/* Define to 1 if you have the <sys/stat.h> header file. */
#define HAVE_SYS_STAT_H 1

/* Define to 1 if you have the <sys/syscall.h> header file. */
#define HAVE_SYS_SYSCALL_H 1

/* Define to 1 if you have the <sys/thr.h> header file. */
/* #undef HAVE_SYS_THR_H */

/* Define to 1 if you have the <sys/types.h> header file. */
#define HAVE_SYS_TYPES_H 1

/* Define to 1 if you have the <thread.h> header file. */
/* #undef HAVE_THREAD_H */

/* Define to 1 if you have the `thr_self' function. */
/* #undef HAVE_THR_SELF */

/* Define to 1 if you have the `timerfd_create' function. */
#define HAVE_TIMERFD_CREATE 1

/* Define to 1 if you have the <unistd.h> header file. */
#define HAVE_UNISTD_H 1

/* Define to 1 if you have the `wait4' function. */
#define HAVE_WAIT4 1

/* Define to the sub-directory where libtool stores uninstalled libraries. */
#define LT_OBJDIR ".libs/"

/* Name of package */
#define PACKAGE "ivykis"

/* Define to the address where bug reports for this package should be sent. */
#define PACKAGE_BUGREPORT "libivykis-discuss@lists.sourceforge.net"

/* Define to the full name of this package. */
#define PACKAGE_NAME "ivykis"

/* Define to the full name and version of this package. */
#define PACKAGE_STRING "ivykis 0.43.2"

/* Define to the one symbol short name of this package. */
#define PACKAGE_TARNAME "ivykis"

/* Define to the home page for this package. */
#define PACKAGE_URL ""

/* Define to the version of this package. */
#define PACKAGE_VERSION "0.43.2"

/* Define to 1 if all of the C90 standard headers exist (not just the ones
   required in a freestanding environment). This macro is provided for
   backward compatibility; new code need not use it. */
#define STDC_HEADERS 1

/* Version number of package */
#define VERSION "0.43.2"
