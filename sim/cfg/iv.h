/*
 * ivykis, an event handling library
 * Copyright (C) 2002, 2003, 2009, 2012 Lennert Buytenhek
 * Dedicated to Marija Kulikova.
 *
 * This library is free software; you can redistribute it and/or modify
 * it under the terms of the GNU Lesser General Public License version
 * 2.1 as published by the Free Software Foundation.
 *
 * This library is distributed in the hope that it will be useful,
 * but WITHOUT ANY WARRANTY; without even the implied warranty of
 * MERCHANTABILITY or FITNESS FOR A PARTICULAR PURPOSE.  See the
 * GNU Lesser General Public License version 2.1 for more details.
 *
 * You should have received a copy of the GNU Lesser General Public
 * License version 2.1 along with this library; if not, write to the
 * Free Software Foundation, Inc., 51 Franklin Street - Fifth Floor,
 * Boston, MA 02110-1301, USA.
 */

#ifndef __IV_H
#define __IV_H

#ifndef _WIN32
#include <errno.h>
#include <sys/types.h>
#include <sys/socket.h>
#include <sys/time.h>
#include <unistd.h>
#else
#include <sys/time.h>
#include <windows.h>
#endif

#ifdef __cplusplus
extern "C" {
#endif

/*
 * Library initialisation, main loop.
 */
void iv_init(void);
int iv_inited(void);
void iv_main(void);
void iv_quit(void);
void iv_deinit(void);
const char *iv_poll_method_name(void);
void iv_fatal(const char *fmt, ...) __attribute__((noreturn))
	__attribute__((format(printf, 1, 2)));
void iv_set_fatal_msg_handler(void (*handler)(const char *msg));
unsigned long iv_get_thread_id(void);


/*
 * Time handling.
 */
const struct timespec *__iv_now_location_valid(void);

#define iv_now			(*__iv_now_location_valid())
#define iv_validate_now()

void iv_invalidate_now(void);


#ifndef _WIN32
/*
 * File descriptor handling.
 */
struct iv_fd {
	int	fd;
	void	*cookie;
	void	(*handler_in)(void *);
	void	(*handler_out)(void *);
	void	(*handler_err)(void *);
	void	*pad[11];
};

void IV_FD_INIT(struct iv_fd *);
void iv_fd_register(struct iv_fd *);
int iv_fd_register_try(struct iv_fd *);
void iv_fd_unregister(struct iv_fd *);
int iv_fd_registered(const struct iv_fd *);
void iv_fd_set_handler_in(struct iv_fd *, void (*)(void *));
void iv_fd_set_handler_out(struct iv_fd *, void (*)(void *));
void iv_fd_set_handler_err(struct iv_fd *, void (*)(void *));
#endif


#ifdef _WIN32
/*
 * Handle handling.
 */
struct iv_handle {
	HANDLE	handle;
	void	*cookie;
	void	(*handler)(void *);
	void	*pad[13];
};

void IV_HANDLE_INIT(struct iv_handle *);
void iv_handle_register(struct iv_handle *);
void iv_handle_unregister(struct iv_handle *);
int iv_handle_registered(const struct iv_handle *);
void iv_handle_set_handler(struct iv_handle *, void (*)(void *));
#endif


/*
 * Task handling.
 */
struct iv_task {
	void	*cookie;
	void	(*handler)(void *);
	void	*pad[6];
};

void IV_TASK_INIT(struct iv_task *);
void iv_task_register(struct iv_task *);
void iv_task_unregister(struct iv_task *);
int iv_task_registered(const struct iv_task *);


/*
 * Timer handling.
 */
struct iv_timer {
	struct timespec	expires;
	void		*cookie;
	void		(*handler)(void *);
	void		*pad[4];
};

void IV_TIMER_INIT(struct iv_timer *);
void iv_timer_register(struct iv_timer *);
void iv_timer_unregister(struct iv_timer *);
int iv_timer_registered(const struct iv_timer *);


#ifdef __cplusplus
}
#endif


#endif
