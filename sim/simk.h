/*
 * simk -- the simulated kernel boundary for ivykis (see DESIGN.md section 2).
 *
 * The library objects are compiled from /repo/src unmodified and have their
 * libc references renamed to simk_* (objcopy --redefine-syms), so every
 * blocking call, clock read, lock, thread operation, signal operation and
 * process operation of the library lands here.
 */
#ifndef SIMK_H
#define SIMK_H

#include <stdint.h>
#include <signal.h>
#include <sys/types.h>

#define SIMK_MAXT	48

/* ---- fault sites ---------------------------------------------------- */
enum {
	FS_WAIT = 1,		/* k-th wait (any primitive) of a thread: EINTR */
	FS_PWAIT2,		/* epoll_pwait2: ENOSYS / EPERM */
	FS_PPOLL,		/* ppoll: ENOSYS */
	FS_EPOLL_CREATE1,	/* ENOSYS */
	FS_EPOLL_CREATE,	/* ENOSYS */
	FS_TIMERFD_CREATE,	/* ENOSYS */
	FS_EVENTFD2,		/* EINVAL / ENOSYS / EMFILE */
	FS_EVENTFD,		/* ENOSYS / EMFILE */
	FS_PIPE,		/* EMFILE */
	FS_PIPE2,		/* ENOSYS */
	FS_SPLICE,		/* EINVAL / ENOSYS ... */
	FS_KICK_ADD,		/* epoll_ctl(ADD) with events==0: ENOSPC */
	FS_WRITE,		/* write on a marked fd: errno */
	FS_READ,		/* read on a marked fd: errno */
	FS_FORK,		/* fork: EAGAIN */
	FS_PTHREAD_CREATE,	/* pthread_create: EAGAIN */
	FS_INOTIFY_INIT,	/* inotify_init: EMFILE */
	FS_INOTIFY_ADD,		/* inotify_add_watch: ENOSPC / ENOENT */
	FS_LIBREAD,		/* read by the library on an eventfd / pipe / inotify descriptor of its own: EINTR / EAGAIN */
	FS_MAX
};

struct simk_fault {
	int	site;
	int	tid;		/* sim thread, or -1: process-wide count */
	int	k;		/* fire at the k-th occurrence (1-based) */
	int	sticky;		/* ... and at every later one */
	int	err;		/* errno to report */
	int	mode;		/* site specific (FS_WAIT: 0 at entry, 1 at wake, 2 early wake) */
	int64_t	param;
	int	fired;
};

struct simk_cfg {
	uint64_t	sched_seed;
	int		strategy;	/* 0 random walk, 1 PCT, 2 round robin */
	int		p_switch;	/* random walk: percent */
	int		pct_depth;
	int		rr_quantum;
	int64_t		start_ns;	/* initial virtual time */
	int64_t		yield_cost_ns;	/* virtual cost of every yield */
	int		batch_trunc;	/* 0 off; else truncate epoll batches (mod) */
	int		short_io;	/* 0 off; else short reads/writes on marked fds (mod) */
	int		pipe_sz;	/* 0 default; else F_SETPIPE_SZ on library pipes */
	uint64_t	fault_seed;
	const uint8_t	*replay;	/* explicit decision stream (NULL: use PRNG) */
	int		nreplay;
	long		max_steps;
	int64_t		max_vtime_ns;	/* relative to start */
	struct simk_fault *faults;
	int		nfaults;
};

/* ---- observation hooks (set by the harness) --------------------------- */
struct simk_obs {
	void (*wait_enter)(int tid, int prim, int64_t tmo_ns, int nfds);
	void (*wait_block)(int tid);
	void (*wait_return)(int tid, int res, int err, int blocked);
	void (*clock_read)(int tid, int64_t val);
	void (*time_advance)(int64_t from, int64_t to);
	void (*budget)(const char *what);
	void (*deadlock)(const char *what);
	void (*sig_deliver)(int tid, int sig, int phase);	/* 0 before handler, 1 after */
	void (*kill)(int tid, pid_t pid, int sig, int result);
	void (*reap)(int tid, pid_t pid, int status);
	void (*fd_event)(int tid, int what, int fd, long a);	/* syscall stream */
	void (*thread_exit)(int tid);
	void (*lock_event)(int tid, void *addr, int acquired, int spin);
	void (*would_block)(int tid, int fd);
	void (*child_event)(pid_t pid, int serial, int state, int status);
	void (*read_data)(int tid, int fd, const void *buf, long n);	/* bytes a library read() returned */
};
extern struct simk_obs simk_obs;

enum { PRIM_EPOLL_WAIT = 1, PRIM_EPOLL_PWAIT2, PRIM_POLL, PRIM_PPOLL };
enum { FDEV_WRITE = 1, FDEV_READ, FDEV_CLOSE, FDEV_CREATE, FDEV_FCNTL, FDEV_SHUTDOWN };

/* ---- harness-side API ---------------------------------------------- */
void	simk_global_init(void);			/* once per process, before fork */
void	simk_run_begin(const struct simk_cfg *cfg);	/* in the run's process */
int	simk_self(void);
int64_t	simk_now(void);
void	simk_yield(void);
void	simk_sleep(int64_t ns);
void	simk_work(int64_t ns);			/* "this code took ns" */
int	simk_thread_create(void *(*fn)(void *), void *arg);	/* returns sim tid */
void	simk_thread_join(int tid);
int	simk_thread_exited(int tid);
int	simk_thread_blocked_in_wait(int tid);
int64_t	simk_thread_wake_time(int tid);		/* INT64_MAX: none */
int64_t	simk_thread_wait_t0(int tid);
int	simk_wait_quiescence(void);		/* 0 quiescent, 1 budget */
void	simk_flag_wait(volatile int *flag);
void	simk_wait_pred(int (*pred)(void *), void *arg);	/* block until pred(arg) != 0 */	/* block until *flag != 0 */
uint64_t simk_hash(void);
void	simk_log(int kind, int64_t a, int64_t b);
int	simk_nthreads(void);
int	simk_lib_thread(int tid);		/* created through pthread_create redirect? */
int	simk_thread_joined(int tid);
int	simk_thread_detached(int tid);

/* statistics */
struct simk_stats {
	long	steps, switches, advances, decisions;
	int64_t	vtime;
	long	fault_fired[FS_MAX];
	long	batch_truncated, short_ios;
	long	timerfd_armed, timerfd_cleared, timerfd_nudged, timerfd_fired;
	long	waits, waits_blocked, eintr;
	long	sig_sent, sig_delivered, sig_coalesced;
	long	forks, reaps, pid_reused;
	long	lib_threads;
};

#define SIMK_MAXDEC	(1 << 20)
#define SIMK_RING	4096
struct simk_shared {
	volatile int	ndec;
	long		nring;
	uint64_t	loghash, schedhash;
	struct simk_stats stats;
	struct { int kind, tid; int64_t a, b, t; } ring[SIMK_RING];
	int		result_len;
	char		result[1 << 17];
	uint8_t		dec[SIMK_MAXDEC];
};
struct simk_shared *simk_shared(void);
void simk_shared_reset(void);
#define simk_stats (simk_shared()->stats)
const uint8_t *simk_decisions(int *n);
uint64_t simk_sched_hash(void);

/* memory / fd ledgers (library side allocations and descriptors) */
int	simk_ledger_blocks(void);
long	simk_ledger_bytes(void);
const char *simk_ledger_describe(char *buf, int len);
int	simk_libfds(void);
const char *simk_libfds_describe(char *buf, int len);
void	simk_fd_disown(int fd);
void	simk_fd_mark(int fd, int flags);	/* harness: enable short io / faults on fd */
#define SIMK_FDM_SHORT	1
#define SIMK_FDM_FAULT	2

/* signals (simulated) */
int	simk_raise_process(int sig);		/* process-directed */
int	simk_raise_thread(int tid, int sig);	/* thread-directed */
long	simk_thread_steps(int tid);	/* scheduling steps this thread has taken */
int64_t	simk_next_deadline(void);	/* earliest pending deadline of anything simulated, -1 if none */
void	simk_fault_once(int site, int err);	/* arm a fault for the calling thread's next call at the site */
int	simk_fault_once_pending(int site);	/* disarm; returns the errno if it had not fired */
int	simk_sigaction_query(int sig);		/* 0 SIG_DFL, 1 SIG_IGN, 2 handler */
void	*simk_sigaction_handler(int sig);
int	simk_harness_sigaction(int sig, void (*fn)(int));	/* harness installs a handler in the sim table */

/* processes (simulated) */
struct simk_child_script {
	int64_t	exit_after_ns;	/* <0: never exits by itself; 0: before fork returns */
	int	exit_status;	/* wait status when it exits by itself */
	int	term_mode;	/* 0 dies on first SIGTERM, 1 ignores TERM (dies on KILL), 2 dies after n-th signal */
	int	term_n;
	int64_t	term_delay_ns;	/* delay between the fatal signal and death */
	int	nstops;		/* stop/continue pairs before exit */
	int64_t	stop_at_ns[4], cont_at_ns[4];
};
void	simk_next_child_script(const struct simk_child_script *s);	/* used by the next fork() */
pid_t	simk_spawn_stranger(const struct simk_child_script *s);	/* a child the library did not fork */
int	simk_children_unreaped(void);
int	simk_child_state(pid_t pid);	/* 0 unknown, 1 running, 2 stopped, 3 zombie, 4 reaped */
long	simk_child_sigcount(pid_t pid, int sig);
int64_t	simk_child_sigtime(pid_t pid, int idx, int *sig);	/* idx-th signal received */
int	simk_child_nsigs(pid_t pid);
int	simk_child_kill_after_reap(void);
int	simk_child_serial(pid_t pid);
void	simk_set_sigmask(int tid, uint64_t mask);
int64_t	simk_vstart(void);
void	simk_finish_stats(void);
long	simk_ring(int back, int *kind, int *tid, int64_t *a, int64_t *b, int64_t *t);	/* count of kills that hit a reaped/reused pid */
void	simk_set_real_fork(int on);		/* next fork() is a real (puppet) fork */
pid_t	simk_real_fork(void);
int	simk_env_kill(pid_t pid, int sig);
void	simk_pid_hold(pid_t pid, int on);	/* keep a pid from being recycled */
int	simk_real_child_wait(pid_t pid);

#endif
