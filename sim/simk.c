/*
 * simk.c -- deterministic simulated kernel boundary for ivykis.
 *
 * Compiled WITHOUT any sanitizer instrumentation in every flavour: all of
 * its state is accessed by exactly one thread at a time (the holder of the
 * run token), threads are parked with raw futex system calls, and readiness
 * peeks use raw system calls, so neither ASan nor TSan sees (or is
 * influenced by) the scheduler.  The pthread / fd calls made *on behalf of
 * the library* go through libc and are therefore visible to TSan as the
 * library's own synchronisation.
 */
#define _GNU_SOURCE
#include <errno.h>
#include <fcntl.h>
#include <limits.h>
#include <linux/futex.h>
#include <poll.h>
#include <pthread.h>
#include <sched.h>
#include <signal.h>
#include <stdarg.h>
#include <stdint.h>
#include <stdio.h>
#include <stdlib.h>
#include <string.h>
#include <sys/epoll.h>
#include <sys/eventfd.h>
#include <sys/inotify.h>
#include <sys/ioctl.h>
#include <sys/mman.h>
#include <sys/resource.h>
#include <sys/socket.h>
#include <sys/syscall.h>
#include <sys/timerfd.h>
#include <sys/wait.h>
#include <time.h>
#include <unistd.h>
#include "simk.h"

struct simk_obs simk_obs;

enum {
	ST_FREE, ST_RUNNABLE, ST_WAIT_POLL, ST_WAIT_MUTEX, ST_WAIT_JOIN,
	ST_SLEEP, ST_WAIT_FLAG, ST_WAIT_QUIESCE, ST_WAIT_PRED, ST_EXITED
};

struct sthr {
	int		state;
	volatile uint32_t go;
	int64_t		deadline;	/* WAIT_POLL / SLEEP; -1: none */
	int		epfd;		/* WAIT_POLL: epoll fd or -1 */
	struct pollfd	*pfds;
	int		npfds;
	void		*lockaddr;
	int		join_target;
	volatile int	*flag;
	int		(*pred)(void *);
	void		*pred_arg;
	pthread_t	pt;
	pid_t		ktid;
	void		*(*start)(void *);
	void		*arg;
	int		dtor_round;
	int		lib;
	int		joined, detached;
	int64_t		wait_t0;
	long		site_count[FS_MAX];
	long		nsteps;
	uint64_t	sigmask, sigpend;
	int		in_sighandler;
	int		eintr_wake;	/* woken for an injected early EINTR */
	int		prio;
};

static struct sthr T[SIMK_MAXT];
static int nthr;
static __thread int me = -1;
static int64_t vnow, vstart;
static struct simk_cfg cfg;
static uint64_t rng;
#define loghash (SH->loghash)
#define schedhash (SH->schedhash)
static pthread_key_t exit_key;
static volatile pid_t pending_reap_ktid;
static long site_gcount[FS_MAX];
static int quiesce_budget;
static long steps_since_advance;

#define MAXDEC SIMK_MAXDEC
static struct simk_shared *SH;
#undef simk_stats
#define simk_stats (SH->stats)
#define dec (SH->dec)
#define ndec (SH->ndec)
static int replay_pos;

/* PCT state */
static long pct_change[8];
static int pct_nchange;
static int rr_left;

/* ---- small utilities ------------------------------------------------ */
static uint64_t splitmix(uint64_t *s)
{
	uint64_t z = (*s += 0x9e3779b97f4a7c15ULL);
	z = (z ^ (z >> 30)) * 0xbf58476d1ce4e5b9ULL;
	z = (z ^ (z >> 27)) * 0x94d049bb133111ebULL;
	return z ^ (z >> 31);
}
static uint64_t rnd(void) { return splitmix(&rng); }
static uint64_t mixhash(uint64_t a, uint64_t b, uint64_t c)
{
	uint64_t s = a * 0x9e3779b97f4a7c15ULL ^ b * 0xc2b2ae3d27d4eb4fULL ^ c * 0x165667b19e3779f9ULL;
	return splitmix(&s);
}
static void hmix(uint64_t *h, uint64_t v)
{
	int i;
	for (i = 0; i < 8; i++) {
		*h ^= (v >> (8 * i)) & 0xff;
		*h *= 1099511628211ULL;
	}
}

#define RING SIMK_RING
#define ring (SH->ring)
#define nring (SH->nring)

void simk_log(int kind, int64_t a, int64_t b)
{
	hmix(&loghash, (uint64_t)kind);
	hmix(&loghash, (uint64_t)(me + 1));
	hmix(&loghash, (uint64_t)a);
	hmix(&loghash, (uint64_t)b);
	ring[nring % RING].kind = kind;
	ring[nring % RING].tid = me;
	ring[nring % RING].a = a;
	ring[nring % RING].b = b;
	ring[nring % RING].t = vnow;
	nring++;
}
long simk_ring(int back, int *kind, int *tid, int64_t *a, int64_t *b, int64_t *t)
{
	long i;
	if (back >= nring || back >= RING)
		return -1;
	i = (nring - 1 - back) % RING;
	*kind = ring[i].kind; *tid = ring[i].tid; *a = ring[i].a; *b = ring[i].b; *t = ring[i].t;
	return nring - 1 - back;
}
uint64_t simk_hash(void) { return loghash; }
uint64_t simk_sched_hash(void) { return schedhash; }
int64_t simk_now(void) { return vnow; }
int simk_self(void) { return me; }
int simk_nthreads(void) { return nthr; }
int simk_lib_thread(int t) { return T[t].lib; }
int simk_thread_joined(int t) { return T[t].joined; }
int simk_thread_detached(int t) { return T[t].detached; }
int simk_thread_exited(int t) { return T[t].state == ST_EXITED; }
const uint8_t *simk_decisions(int *n) { *n = ndec; return dec; }

static void fwait(volatile uint32_t *a, uint32_t v) { syscall(SYS_futex, a, FUTEX_WAIT_PRIVATE, v, 0, 0, 0); }
static void fwake(volatile uint32_t *a) { syscall(SYS_futex, a, FUTEX_WAKE_PRIVATE, 1, 0, 0, 0); }

static int raw_poll(struct pollfd *p, int n)
{
	struct timespec z = { 0, 0 };
	return (int)syscall(SYS_ppoll, p, (long)n, &z, NULL, 8L);
}

/* ---- lock table -------------------------------------------------------- */
#define NLK 512
static struct { void *a; int owner; } lk[NLK];
static int lk_find(void *a, int create)
{
	int i, fr = -1;
	for (i = 0; i < NLK; i++) {
		if (lk[i].a == a)
			return i;
		if (lk[i].a == NULL && fr < 0)
			fr = i;
	}
	if (!create)
		return -1;
	if (fr < 0) {
		fprintf(stderr, "simk: lock table full\n");
		abort();
	}
	lk[fr].a = a;
	lk[fr].owner = -1;
	return fr;
}

/* ---- timerfd emulation ------------------------------------------------- */
#define NTFD 64
static struct { int fd; int64_t expiry; int owner; } tfd[NTFD];

static int tfd_find(int fd)
{
	int i;
	for (i = 0; i < NTFD; i++)
		if (tfd[i].fd == fd && fd > 0)
			return i;
	return -1;
}
static void tfd_fire(int i)
{
	uint64_t one = 1;
	tfd[i].expiry = -1;
	/* raw system call: the kernel firing a timer is not an act of any thread */
	if (syscall(SYS_write, tfd[i].fd, &one, 8L) != 8)
		abort();
	simk_stats.timerfd_fired++;
	simk_log(20, i, vnow);
}

/* pids of really forked children differ from run to run: the event log names them by table index */
#define PIDLOG(p) ((p)->real ? 90000 + (int)((p) - P) : (int)(p)->pid)
/* ---- simulated processes (section 2.6) ---------------------------------- */
#define NPROC 64
struct sproc {
	pid_t	pid;
	int	state;		/* 1 running, 2 stopped, 3 zombie, 4 reaped */
	int	status;		/* wait status once zombie */
	int	report_stop, report_cont;
	int64_t	exit_at;	/* absolute; -1 none */
	int	exit_status;
	int	term_mode, term_n;
	int64_t	term_delay;
	int	nsig_fatal;
	int	nstops, stop_idx;
	int64_t	stop_at[4], cont_at[4];
	int	nsigs;
	struct { int sig; int64_t t; } sigs[32];
	int	stranger;
	int	manual_stop;
	int	real;		/* backed by a really forked process with this pid */
};
static struct sproc P[NPROC];
static int nproc;
static pid_t next_pid = 5000000;	/* above any real pid (pid_max <= 4194304): really forked children keep their own pids */
static pid_t free_pids[NPROC];
static int nfree_pids;
static struct simk_child_script next_script;
static int have_next_script;
static int kill_after_reap;
static int real_fork_next_t[SIMK_MAXT];
static int pid_is_held(pid_t pid);
static void proc_events(void);
static int64_t proc_next_time(void);
static void raise_process_sig(int sig);
static struct simk_fault *fault_at(int site);

/* ---- signals --------------------------------------------------------- */
/* The kernel orders sigaction() before any invocation of the handler it installs; the
 * simulated delivery is a plain call, so that edge is declared to TSan explicitly. */
extern void __tsan_acquire(void *addr) __attribute__((weak));
extern void __tsan_release(void *addr) __attribute__((weak));
extern void __tsan_write_range(void *addr, unsigned long size) __attribute__((weak));
extern void __tsan_read_range(void *addr, unsigned long size) __attribute__((weak));
static struct { int kind; void (*h)(int); uint64_t mask; int flags; } sigtab[65];
static uint64_t proc_sigpend;
#define SBIT(s) (1ULL << ((s) - 1))

static uint64_t set_to_bits(const sigset_t *s)
{
	uint64_t b = 0;
	int i;
	for (i = 1; i <= 64; i++)
		if (sigismember(s, i) == 1)
			b |= SBIT(i);
	return b;
}
static void bits_to_set(uint64_t b, sigset_t *s)
{
	int i;
	sigemptyset(s);
	for (i = 1; i <= 64; i++)
		if (b & SBIT(i))
			sigaddset(s, i);
}
static uint64_t deliverable(int t)
{
	return (T[t].sigpend | proc_sigpend) & ~T[t].sigmask;
}

/* ---- runnable test ---------------------------------------------------- */
static int poll_ready(struct sthr *t)
{
	if (t->epfd >= 0) {
		struct pollfd p = { t->epfd, POLLIN, 0 };
		return raw_poll(&p, 1) > 0;
	} else {
		/* copy by hand: memcpy is intercepted by TSan even in uninstrumented code, and this
		 * peek at another thread's pollfd array must stay invisible to it */
		struct pollfd tmp[256];
		struct pollfd *c = tmp;
		int n = t->npfds, r, i;
		if (n > 256)
			c = malloc((size_t)n * sizeof(*c));
		for (i = 0; i < n; i++) {
			c[i].fd = ((volatile struct pollfd *)t->pfds)[i].fd;
			c[i].events = ((volatile struct pollfd *)t->pfds)[i].events;
			c[i].revents = 0;
		}
		r = raw_poll(c, n) > 0;
		if (c != tmp)
			free(c);
		return r;
	}
}

static int runnable(int i)
{
	struct sthr *t = &T[i];
	int k;

	switch (t->state) {
	case ST_RUNNABLE:
		return 1;
	case ST_WAIT_POLL:
		if (t->deadline >= 0 && t->deadline <= vnow)
			return 1;
		if (deliverable(i))
			return 1;
		return poll_ready(t);
	case ST_SLEEP:
		return t->deadline <= vnow;
	case ST_WAIT_MUTEX:
		k = lk_find(t->lockaddr, 0);
		return k < 0 || lk[k].owner < 0;
	case ST_WAIT_JOIN:
		return T[t->join_target].state == ST_EXITED;
	case ST_WAIT_FLAG:
		return *t->flag != 0;
	case ST_WAIT_PRED:
		return t->pred(t->pred_arg) != 0;
	}
	return 0;
}

static void fire_due(void)
{
	int i;
	for (i = 0; i < NTFD; i++)
		if (tfd[i].fd > 0 && tfd[i].expiry >= 0 && tfd[i].expiry <= vnow)
			tfd_fire(i);
	proc_events();
}

/* nanoseconds of a timespec; anything beyond ~126 years is "never" (and does not overflow) */
#define TS_NEVER_SEC	4000000000LL
static int64_t ts_ns_clamped(const struct timespec *ts)
{
	if ((int64_t)ts->tv_sec >= TS_NEVER_SEC)
		return TS_NEVER_SEC * 1000000000LL;
	return (int64_t)ts->tv_sec * 1000000000LL + ts->tv_nsec;
}

static int64_t next_deadline(void);
int64_t simk_next_deadline(void) { return next_deadline(); }
long simk_thread_steps(int tid) { return T[tid].nsteps; }

static int64_t next_deadline(void)
{
	int64_t next = -1, p;
	int i;
	for (i = 0; i < nthr; i++)
		if ((T[i].state == ST_WAIT_POLL || T[i].state == ST_SLEEP) &&
		    T[i].deadline >= 0 && (next < 0 || T[i].deadline < next))
			next = T[i].deadline;
	for (i = 0; i < NTFD; i++)
		if (tfd[i].fd > 0 && tfd[i].expiry >= 0 && (next < 0 || tfd[i].expiry < next))
			next = tfd[i].expiry;
	p = proc_next_time();
	if (p >= 0 && (next < 0 || p < next))
		next = p;
	return next;
}

/* ---- decisions -------------------------------------------------------- */
static int decide(int n, int cur_is_cand)
{
	int d;

	simk_stats.decisions++;
	if (cfg.replay != NULL) {
		d = replay_pos < cfg.nreplay ? cfg.replay[replay_pos] : 0;
		replay_pos++;
		d %= n;
	} else {
		switch (cfg.strategy) {
		default:
		case 0:
			if ((int)(rnd() % 100) < cfg.p_switch || !cur_is_cand)
				d = (int)(rnd() % n);
			else
				d = 0;
			break;
		case 1:	/* PCT: handled by caller through priorities (d computed there) */
			d = -1;
			break;
		case 2:
			if (cur_is_cand && rr_left-- > 0) {
				d = 0;
			} else {
				rr_left = cfg.rr_quantum;
				d = n > 1 ? 1 : 0;
			}
			break;
		}
	}
	return d;
}

/* pick the next thread; cur = me when still runnable, else -1 */
static int pick(int cur)
{
	for (;;) {
		int cand[SIMK_MAXT], n = 0, i, d, cur_is_cand = 0;

		fire_due();
		/* A thread that keeps running (polling without ever blocking) must not stop the clock for
		 * everybody else: after a long stretch without any time passing, let the earliest pending
		 * deadline arrive although somebody is still runnable. */
		if (++steps_since_advance > 20000) {
			int64_t nd = next_deadline();
			steps_since_advance = 0;
			if (nd > vnow && nd - vstart <= cfg.max_vtime_ns) {
				if (simk_obs.time_advance)
					simk_obs.time_advance(vnow, nd);
				vnow = nd;
				simk_stats.advances++;
				simk_log(23, 0, vnow);
				fire_due();
			}
		}
		if (cur >= 0 && runnable(cur)) {
			cand[n++] = cur;
			cur_is_cand = 1;
		}
		for (i = 0; i < nthr; i++)
			if (i != cur && T[i].state != ST_FREE && T[i].state != ST_EXITED &&
			    T[i].state != ST_WAIT_QUIESCE && runnable(i))
				cand[n++] = i;
		if (n == 1)
			return cand[0];
		if (n > 1) {
			d = decide(n, cur_is_cand);
			if (d < 0) {
				/* PCT */
				int best = 0;
				for (i = 0; i < pct_nchange; i++)
					if (pct_change[i] == simk_stats.steps && cur >= 0)
						T[cur].prio = -(int)simk_stats.steps;
				for (i = 1; i < n; i++)
					if (T[cand[i]].prio > T[cand[best]].prio)
						best = i;
				d = best;
			}
			if (ndec < MAXDEC)
				dec[ndec++] = (uint8_t)(d > 255 ? 255 : d);
			hmix(&schedhash, (uint64_t)d + 1);
			return cand[d];
		}
		/* nobody runnable: advance virtual time */
		{
			int64_t next = next_deadline();
			if (next >= 0 && next - vstart > cfg.max_vtime_ns) {
				quiesce_budget = 1;
				next = -1;
			}
			if (next < 0) {
				for (i = 0; i < nthr; i++)
					if (T[i].state == ST_WAIT_QUIESCE)
						return i;
				if (simk_obs.deadlock)
					simk_obs.deadlock(quiesce_budget ? "vtime budget" : "no runnable thread and no waiter for quiescence");
				fprintf(stderr, "simk: deadlock\n");
				_exit(70);
			}
			if (next > vnow) {
				steps_since_advance = 0;
				if (simk_obs.time_advance)
					simk_obs.time_advance(vnow, next);
				vnow = next;
				simk_stats.advances++;
				simk_log(21, 0, vnow);
			} else {
				/* a deadline in the past that made nobody runnable cannot happen */
				fprintf(stderr, "simk: stuck deadline\n");
				abort();
			}
		}
	}
}

static void reap_exited(void)
{
	pid_t k = pending_reap_ktid;
	if (k) {
		pid_t pid = getpid();
		while (syscall(SYS_tgkill, pid, k, 0) == 0 || errno != ESRCH)
			sched_yield();
		pending_reap_ktid = 0;
	}
}

static void switch_to(int next)
{
	int self = me;

	if (next == self) {
		T[self].state = ST_RUNNABLE;
		return;
	}
	simk_stats.switches++;
	__atomic_store_n(&T[next].go, 1, __ATOMIC_SEQ_CST);
	fwake(&T[next].go);
	while (!__atomic_load_n(&T[self].go, __ATOMIC_SEQ_CST))
		fwait(&T[self].go, 0);
	__atomic_store_n(&T[self].go, 0, __ATOMIC_SEQ_CST);
	reap_exited();
	T[self].state = ST_RUNNABLE;
}

static void deliver_signals(int always);

static int passthru;	/* set in a really forked child: one thread, no scheduling */

static void step(void)
{
	simk_stats.steps++;
	T[me].nsteps++;
	if (cfg.yield_cost_ns)
		vnow += cfg.yield_cost_ns;
	if (simk_stats.steps > cfg.max_steps) {
		if (simk_obs.budget)
			simk_obs.budget("steps");
		_exit(71);
	}
}

void simk_yield(void)
{
	if (passthru)
		return;
	step();
	T[me].state = ST_RUNNABLE;
	switch_to(pick(me));
	/* nested delivery is governed by the masks alone (sa_mask of the running handler), as in the kernel */
	if (deliverable(me))
		deliver_signals(0);
}

static void block(void)
{
	if (passthru) {
		/* a really forked child has one thread: nothing could ever wake it */
		_exit(98);
	}
	step();
	switch_to(pick(-1));
}

void simk_sleep(int64_t ns)
{
	T[me].deadline = vnow + ns;
	T[me].state = ST_SLEEP;
	block();
}

void simk_work(int64_t ns)
{
	if (ns > 0) {
		vnow += ns;
		simk_log(22, me, ns);
	}
	simk_yield();
}

void simk_flag_wait(volatile int *flag)
{
	while (!*flag) {
		T[me].flag = flag;
		T[me].state = ST_WAIT_FLAG;
		block();
	}
}

void simk_wait_pred(int (*pred)(void *), void *arg)
{
	while (!pred(arg)) {
		T[me].pred = pred;
		T[me].pred_arg = arg;
		T[me].state = ST_WAIT_PRED;
		block();
	}
}

int simk_wait_quiescence(void)
{
	quiesce_budget = 0;
	T[me].state = ST_WAIT_QUIESCE;
	block();
	return quiesce_budget;
}

int simk_thread_blocked_in_wait(int t) { return T[t].state == ST_WAIT_POLL; }
int64_t simk_thread_wait_t0(int t) { return T[t].wait_t0; }
int64_t simk_thread_wake_time(int t)
{
	int64_t w = INT64_MAX;
	int i;
	if (T[t].state == ST_WAIT_POLL || T[t].state == ST_SLEEP) {
		if (T[t].deadline >= 0)
			w = T[t].deadline;
		for (i = 0; i < NTFD; i++)
			if (tfd[i].fd > 0 && tfd[i].owner == t && tfd[i].expiry >= 0 && tfd[i].expiry < w)
				w = tfd[i].expiry;
	}
	return w;
}

/* ---- threads ------------------------------------------------------------ */
static void exit_dtor(void *v)
{
	struct sthr *t = v;
	int next;

	if (++t->dtor_round < 3) {
		pthread_setspecific(exit_key, t);
		return;
	}
	simk_log(30, me, vnow);
	if (simk_obs.thread_exit)
		simk_obs.thread_exit(me);
	step();
	t->state = ST_EXITED;
	next = pick(-1);
	simk_stats.switches++;
	pending_reap_ktid = t->ktid;
	__atomic_store_n(&T[next].go, 1, __ATOMIC_SEQ_CST);
	fwake(&T[next].go);
}

static void *tramp(void *v)
{
	struct sthr *t = v;

	me = (int)(t - T);
	t->ktid = (pid_t)syscall(SYS_gettid);
	while (!__atomic_load_n(&t->go, __ATOMIC_SEQ_CST))
		fwait(&t->go, 0);
	__atomic_store_n(&t->go, 0, __ATOMIC_SEQ_CST);
	reap_exited();
	t->state = ST_RUNNABLE;
	pthread_setspecific(exit_key, t);
	return t->start(t->arg);
}

static int thread_new(pthread_t *pt, const pthread_attr_t *a, void *(*f)(void *), void *arg, int lib)
{
	int i = nthr, r;
	struct sthr *t;

	if (i >= SIMK_MAXT) {
		errno = EAGAIN;
		return -1;
	}
	nthr++;
	t = &T[i];
	memset(t, 0, sizeof(*t));
	t->state = ST_RUNNABLE;
	t->start = f;
	t->arg = arg;
	t->epfd = -1;
	t->lib = lib;
	t->prio = 1 + (int)(mixhash(cfg.sched_seed, 77, i) % 1000);
	/* a new thread inherits the creator's signal mask */
	t->sigmask = T[me].sigmask;
	r = pthread_create(&t->pt, a, tramp, t);
	if (r) {
		nthr--;
		return -r;
	}
	if (pt)
		*pt = t->pt;
	simk_log(1, i, lib);
	return i;
}

int simk_thread_create(void *(*fn)(void *), void *arg)
{
	int i = thread_new(NULL, NULL, fn, arg, 0);
	if (i < 0) {
		fprintf(stderr, "simk: thread creation failed\n");
		abort();
	}
	T[i].sigmask = 0;
	return i;
}

void simk_thread_join(int tid)
{
	while (T[tid].state != ST_EXITED) {
		T[me].join_target = tid;
		T[me].state = ST_WAIT_JOIN;
		block();
	}
	pthread_join(T[tid].pt, NULL);
	T[tid].joined = 1;
}

int simk_pthread_create(pthread_t *pt, const pthread_attr_t *a, void *(*f)(void *), void *arg)
{
	int i;

	simk_yield();
	{
		struct simk_fault *ft = fault_at(FS_PTHREAD_CREATE);
		if (ft)
			return ft->err;
	}
	i = thread_new(pt, a, f, arg, 1);
	if (i < 0)
		return -i;
	simk_stats.lib_threads++;
	simk_yield();
	return 0;
}

static int thr_by_pt(pthread_t pt)
{
	int i;
	/* pthread_t values are recycled once a thread has been joined: newest unjoined match */
	for (i = nthr - 1; i >= 1; i--)
		if (!T[i].joined && pthread_equal(T[i].pt, pt))
			return i;
	return -1;
}

int simk_pthread_join(pthread_t pt, void **rv)
{
	int tgt = thr_by_pt(pt), r;

	simk_yield();
	if (tgt >= 0) {
		while (T[tgt].state != ST_EXITED) {
			T[me].join_target = tgt;
			T[me].state = ST_WAIT_JOIN;
			block();
		}
	}
	r = pthread_join(pt, rv);
	if (tgt >= 0)
		T[tgt].joined = 1;
	simk_log(2, tgt, r);
	return r;
}

int simk_pthread_detach(pthread_t pt)
{
	int tgt = thr_by_pt(pt);
	simk_yield();
	if (tgt >= 0)
		T[tgt].detached = 1;
	simk_log(3, tgt, 0);
	return pthread_detach(pt);
}

/* ---- locks ---------------------------------------------------------------- */
static void lock_acquire(void *m)
{
	int k;

	simk_yield();
	k = lk_find(m, 1);
	if (passthru) {
		/* single-threaded child: locks held by threads that do not exist here are free */
		lk[k].owner = me;
		return;
	}
	if (lk[k].owner == me) {
		if (simk_obs.deadlock)
			simk_obs.deadlock("self-deadlock: thread re-acquires a lock it holds");
		_exit(70);
	}
	while (lk[k].owner >= 0) {
		T[me].lockaddr = m;
		T[me].state = ST_WAIT_MUTEX;
		block();
		k = lk_find(m, 1);
	}
	lk[k].owner = me;
	simk_log(4, k, 0);
}
static void lock_release(void *m)
{
	int k = lk_find(m, 0);
	if (!passthru && (k < 0 || lk[k].owner != me) && simk_obs.deadlock) {
		/* releasing a lock that the thread does not hold: the critical section it closes was never
		 * entered (undefined behaviour for a real mutex or spin lock) */
		simk_obs.deadlock("a thread releases a lock that it does not hold");
	}
	if (k >= 0)
		lk[k].owner = -1;
}
static void lock_obs(void *m, int acquired, int spin)
{
	if (simk_obs.lock_event)
		simk_obs.lock_event(me, m, acquired, spin);
}

int simk_pthread_mutex_init(pthread_mutex_t *m, const pthread_mutexattr_t *a)
{
	lk_find(m, 1);
	return pthread_mutex_init(m, a);
}
int simk_pthread_mutex_destroy(pthread_mutex_t *m)
{
	int k = lk_find(m, 0);
	if (k >= 0)
		lk[k].a = NULL;
	return pthread_mutex_destroy(m);
}
int simk_pthread_mutex_lock(pthread_mutex_t *m)
{
	int r;
	lock_acquire(m);
	r = pthread_mutex_lock(m);
	lock_obs(m, 1, 0);
	/* a thread can lose the CPU while it holds a lock: let the others run against the held lock
	 * (they block on it, or see a trylock fail) */
	simk_yield();
	return r;
}
int simk_pthread_mutex_trylock(pthread_mutex_t *m)
{
	int k, r;
	simk_yield();
	k = lk_find(m, 1);
	if (lk[k].owner >= 0)
		return EBUSY;
	lk[k].owner = me;
	r = pthread_mutex_trylock(m);
	lock_obs(m, 1, 0);
	simk_yield();
	return r;
}
int simk_pthread_mutex_unlock(pthread_mutex_t *m)
{
	int r;
	lock_obs(m, 0, 0);
	lock_release(m);
	r = pthread_mutex_unlock(m);
	simk_yield();
	return r;
}
int simk_pthread_spin_init(pthread_spinlock_t *l, int sh)
{
	lk_find((void *)l, 1);
	return pthread_spin_init(l, sh);
}
int simk_pthread_spin_lock(pthread_spinlock_t *l)
{
	int r;
	lock_acquire((void *)l);
	r = pthread_spin_lock(l);
	lock_obs((void *)l, 1, 1);
	simk_yield();
	return r;
}
int simk_pthread_spin_trylock(pthread_spinlock_t *l)
{
	int k;
	simk_yield();
	k = lk_find((void *)l, 1);
	if (lk[k].owner >= 0)
		return EBUSY;
	lk[k].owner = me;
	return pthread_spin_trylock(l);
}
int simk_pthread_spin_unlock(pthread_spinlock_t *l)
{
	int r;
	lock_obs((void *)l, 0, 1);
	lock_release((void *)l);
	r = pthread_spin_unlock(l);
	simk_yield();
	return r;
}

/* ---- faults ------------------------------------------------------------- */
/* returns the matching fault (and counts it) or NULL */
/* one-shot faults armed by the harness for the calling thread's next call at a site (a fault
 * that belongs to one particular operation of the plan rather than to a global call index) */
static int once_err[SIMK_MAXT][FS_MAX];
static struct simk_fault once_fault;

void simk_fault_once(int site, int err)
{
	once_err[me][site] = err;
}
int simk_fault_once_pending(int site)
{
	int e = once_err[me][site];
	once_err[me][site] = 0;
	return e;
}

static struct simk_fault *fault_at(int site)
{
	long tc = ++T[me].site_count[site];
	long gc = ++site_gcount[site];
	int i;

	if (once_err[me][site]) {
		once_fault.site = site;
		once_fault.err = once_err[me][site];
		once_fault.mode = 0;
		once_err[me][site] = 0;
		simk_stats.fault_fired[site]++;
		simk_log(40, site, once_fault.err);
		return &once_fault;
	}

	for (i = 0; i < cfg.nfaults; i++) {
		struct simk_fault *f = &cfg.faults[i];
		long c;
		if (f->site != site)
			continue;
		if (f->tid >= 0 && f->tid != me)
			continue;
		c = f->tid >= 0 ? tc : gc;
		if (c == f->k || (f->sticky && c > f->k)) {
			f->fired++;
			simk_stats.fault_fired[site]++;
			simk_log(40, site, f->err);
			return f;
		}
	}
	return NULL;
}

/* ---- clock -------------------------------------------------------------- */
int simk_clock_gettime(clockid_t c, struct timespec *ts)
{
	(void)c;
	ts->tv_sec = vnow / 1000000000LL;
	ts->tv_nsec = vnow % 1000000000LL;
	simk_log(5, 0, vnow);
	if (simk_obs.clock_read)
		simk_obs.clock_read(me, vnow);
	return 0;
}
int simk_gettimeofday(struct timeval *tv, void *tz)
{
	(void)tz;
	tv->tv_sec = vnow / 1000000000LL;
	tv->tv_usec = (vnow % 1000000000LL) / 1000;
	if (simk_obs.clock_read)
		simk_obs.clock_read(me, vnow - vnow % 1000);
	return 0;
}

/* ---- waits -------------------------------------------------------------- */
static int real_wait(int prim, int epfd, struct epoll_event *ev, int max, struct pollfd *fds, int nfds)
{
	if (prim == PRIM_EPOLL_WAIT || prim == PRIM_EPOLL_PWAIT2) {
		int m = max;
		if (cfg.batch_trunc && max > 1) {
			uint64_t h = mixhash(cfg.fault_seed, (uint64_t)me, (uint64_t)T[me].site_count[FS_WAIT]);
			if (h % (uint64_t)cfg.batch_trunc == 0) {
				m = 1 + (int)((h >> 20) % (uint64_t)(max - 1));
			}
		}
		{
			int r = epoll_wait(epfd, ev, m, 0);
			if (m < max && r == m)
				simk_stats.batch_truncated++;
			/* what the kernel stored is a write by this thread as far as the race detector is
			 * concerned (the simulator itself is not instrumented) */
			if (r > 0 && __tsan_write_range)
				__tsan_write_range(ev, (unsigned long)r * sizeof(*ev));
			return r;
		}
	}
	return poll(fds, nfds, 0);
}

static int do_wait(int prim, int epfd, struct epoll_event *ev, int max,
		   struct pollfd *fds, int nfds, int64_t tmo_ns)
{
	struct simk_fault *f;
	int r, eintr_at_wake = 0;
	int64_t early = -1;

	simk_yield();
	simk_stats.waits++;
	T[me].wait_t0 = vnow;
	if (simk_obs.wait_enter)
		simk_obs.wait_enter(me, prim, tmo_ns, prim <= PRIM_EPOLL_PWAIT2 ? max : nfds);
	simk_log(6, prim, tmo_ns);

	f = fault_at(FS_WAIT);
	if (f != NULL) {
		if (f->mode == 0) {
			simk_stats.eintr++;
			if (simk_obs.wait_return)
				simk_obs.wait_return(me, -1, EINTR, 0);
			simk_log(7, -1, EINTR);
			errno = EINTR;
			return -1;
		} else if (f->mode == 1) {
			eintr_at_wake = 1;
		} else {
			early = f->param;
		}
	}

	r = real_wait(prim, epfd, ev, max, fds, nfds);
	if (r != 0 || tmo_ns == 0) {
		int e = errno;
		if (simk_obs.wait_return)
			simk_obs.wait_return(me, r, r < 0 ? e : 0, 0);
		simk_log(7, r, 0);
		errno = e;
		return r;
	}

	/* block */
	simk_stats.waits_blocked++;
	if (simk_obs.wait_block)
		simk_obs.wait_block(me);
	T[me].epfd = (prim <= PRIM_EPOLL_PWAIT2) ? epfd : -1;
	T[me].pfds = fds;
	T[me].npfds = nfds;
	T[me].deadline = tmo_ns < 0 ? -1 : vnow + tmo_ns;
	T[me].eintr_wake = 0;
	if (early >= 0 && (T[me].deadline < 0 || vnow + early < T[me].deadline)) {
		T[me].deadline = vnow + early;
		T[me].eintr_wake = 1;
	}
	for (;;) {
		int e;

		T[me].state = ST_WAIT_POLL;
		block();

		if (deliverable(me)) {
			deliver_signals(1);
			eintr_at_wake = 1;
		}
		if (eintr_at_wake || (T[me].eintr_wake && T[me].deadline <= vnow)) {
			T[me].eintr_wake = 0;
			simk_stats.eintr++;
			if (simk_obs.wait_return)
				simk_obs.wait_return(me, -1, EINTR, 1);
			simk_log(7, -1, EINTR);
			errno = EINTR;
			return -1;
		}
		r = real_wait(prim, epfd, ev, max, fds, nfds);
		e = errno;
		if (r == 0 && !(T[me].deadline >= 0 && T[me].deadline <= vnow))
			continue;	/* woken for nothing (e.g. another thread took the signal) */
		if (simk_obs.wait_return)
			simk_obs.wait_return(me, r, r < 0 ? e : 0, 1);
		simk_log(7, r, 1);
		errno = e;
		return r;
	}
}

int simk_epoll_wait(int epfd, struct epoll_event *ev, int max, int ms)
{
	return do_wait(PRIM_EPOLL_WAIT, epfd, ev, max, NULL, 0, ms < 0 ? -1 : ms * 1000000LL);
}

int simk_epoll_pwait2(int epfd, struct epoll_event *ev, int max, const struct timespec *ts, const sigset_t *ss)
{
	struct simk_fault *f;
	(void)ss;
	f = fault_at(FS_PWAIT2);
	if (f != NULL) {
		simk_yield();
		errno = f->err;
		return -1;
	}
	if (ts != NULL && (ts->tv_sec < 0 || ts->tv_nsec < 0 || ts->tv_nsec >= 1000000000L)) {
		simk_yield();
		errno = EINVAL;		/* as the kernel does for an invalid time-out */
		return -1;
	}
	return do_wait(PRIM_EPOLL_PWAIT2, epfd, ev, max, NULL, 0, ts ? ts_ns_clamped(ts) : -1);
}

int simk_poll(struct pollfd *fds, nfds_t n, int ms)
{
	return do_wait(PRIM_POLL, -1, NULL, 0, fds, (int)n, ms < 0 ? -1 : ms * 1000000LL);
}

int simk_ppoll(struct pollfd *fds, nfds_t n, const struct timespec *ts, const sigset_t *ss)
{
	struct simk_fault *f;
	(void)ss;
	f = fault_at(FS_PPOLL);
	if (f != NULL) {
		simk_yield();
		errno = f->err;
		return -1;
	}
	if (ts != NULL && (ts->tv_sec < 0 || ts->tv_nsec < 0 || ts->tv_nsec >= 1000000000L)) {
		simk_yield();
		errno = EINVAL;
		return -1;
	}
	return do_wait(PRIM_PPOLL, -1, NULL, 0, fds, (int)n, ts ? ts_ns_clamped(ts) : -1);
}

/* ---- descriptor ledger ---------------------------------------------------- */
#define NFDL 4096
static uint8_t libfd[NFDL];	/* 1: created by the library and not closed */
static uint8_t fdmark[NFDL];
static int nlibfd;

static void fd_own(int fd)
{
	if (fd >= 0 && fd < NFDL && !libfd[fd]) {
		libfd[fd] = 1;
		nlibfd++;
	}
	if (simk_obs.fd_event)
		simk_obs.fd_event(me, FDEV_CREATE, fd, 0);
}
void simk_fd_disown(int fd)
{
	if (fd >= 0 && fd < NFDL && libfd[fd]) {
		libfd[fd] = 0;
		nlibfd--;
	}
}
void simk_fd_mark(int fd, int flags)
{
	if (fd >= 0 && fd < NFDL)
		fdmark[fd] = (uint8_t)flags;
}
int simk_libfds(void) { return nlibfd; }
const char *simk_libfds_describe(char *buf, int len)
{
	int i, o = 0;
	buf[0] = 0;
	for (i = 0; i < NFDL && o < len - 16; i++)
		if (libfd[i]) {
			char lnk[64], tgt[64];
			ssize_t n;
			snprintf(lnk, sizeof(lnk), "/proc/self/fd/%d", i);
			n = readlink(lnk, tgt, sizeof(tgt) - 1);
			tgt[n > 0 ? n : 0] = 0;
			o += snprintf(buf + o, len - o, "%d(%s) ", i, tgt);
		}
	return buf;
}

static void shrink_pipe(int fd)
{
	if (cfg.pipe_sz)
		fcntl(fd, F_SETPIPE_SZ, cfg.pipe_sz);
}

/* ---- descriptor creation --------------------------------------------------- */
int simk_epoll_create(int sz)
{
	struct simk_fault *f;
	int r;
	simk_yield();
	f = fault_at(FS_EPOLL_CREATE);
	if (f) { errno = f->err; return -1; }
	r = epoll_create(sz);
	if (r >= 0)
		fd_own(r);
	return r;
}

int simk_pipe(int fd[2])
{
	struct simk_fault *f;
	int r;
	simk_yield();
	f = fault_at(FS_PIPE);
	if (f) { errno = f->err; return -1; }
	r = pipe(fd);
	if (r == 0) {
		fd_own(fd[0]);
		fd_own(fd[1]);
		shrink_pipe(fd[1]);
	}
	return r;
}

int simk_timerfd_create(int clk, int flags)
{
	struct simk_fault *f;
	int fd, i;
	(void)clk; (void)flags;
	simk_yield();
	f = fault_at(FS_TIMERFD_CREATE);
	if (f) { errno = f->err; return -1; }
	fd = eventfd(0, EFD_NONBLOCK | EFD_CLOEXEC);
	if (fd < 0)
		return -1;
	for (i = 0; i < NTFD; i++)
		if (tfd[i].fd <= 0)
			break;
	if (i == NTFD)
		abort();
	tfd[i].fd = fd;
	tfd[i].expiry = -1;
	tfd[i].owner = me;
	fd_own(fd);
	return fd;
}

int simk_timerfd_settime(int fd, int flags, const struct itimerspec *v, struct itimerspec *old)
{
	int i = tfd_find(fd);
	uint64_t c;
	int64_t e;
	(void)flags; (void)old;
	simk_yield();
	if (i < 0) {
		errno = EBADF;
		return -1;
	}
	while (syscall(SYS_read, fd, &c, 8L) == 8)
		;
	e = ts_ns_clamped(&v->it_value);
	if (e == 0) {
		tfd[i].expiry = -1;
		simk_stats.timerfd_cleared++;
	} else {
		tfd[i].expiry = e;
		simk_stats.timerfd_armed++;
		if (e == 1)
			simk_stats.timerfd_nudged++;
		if (e <= vnow)
			tfd_fire(i);
	}
	simk_log(8, i, e);
	return 0;
}

long simk_syscall(long nr, ...)
{
	va_list ap;
	long a0, a1;
	struct simk_fault *f;
	long r;

	va_start(ap, nr);
	a0 = va_arg(ap, long);
	a1 = va_arg(ap, long);
	va_end(ap);

	switch (nr) {
	case SYS_gettid:
		return syscall(SYS_gettid);
	case SYS_eventfd2:
		simk_yield();
		f = fault_at(FS_EVENTFD2);
		if (f) { errno = f->err; return -1; }
		r = eventfd((unsigned int)a0, (int)a1);	/* libc wrapper: descriptor creation stays visible to TSan */
		if (r >= 0)
			fd_own((int)r);
		return r;
	case SYS_eventfd:
		simk_yield();
		f = fault_at(FS_EVENTFD);
		if (f) { errno = f->err; return -1; }
		r = eventfd((unsigned int)a0, 0);
		if (r >= 0)
			fd_own((int)r);
		return r;
	case SYS_epoll_create1:
		simk_yield();
		f = fault_at(FS_EPOLL_CREATE1);
		if (f) { errno = f->err; return -1; }
		r = epoll_create1((int)a0);
		if (r >= 0)
			fd_own((int)r);
		return r;
	case SYS_pipe2:
		simk_yield();
		f = fault_at(FS_PIPE2);
		if (f) { errno = f->err; return -1; }
		r = pipe2((int *)a0, (int)a1);
		if (r == 0) {
			int *p = (int *)a0;
			fd_own(p[0]);
			fd_own(p[1]);
			shrink_pipe(p[1]);
		}
		return r;
	}
	fprintf(stderr, "simk: unexpected syscall(%ld)\n", nr);
	abort();
}

int simk_inotify_init(void)
{
	int r;
	struct simk_fault *f;
	simk_yield();
	f = fault_at(FS_INOTIFY_INIT);
	if (f) { errno = f->err; return -1; }
	r = inotify_init();
	if (r >= 0)
		fd_own(r);
	return r;
}
int simk_inotify_add_watch(int fd, const char *path, uint32_t mask)
{
	struct simk_fault *f;
	simk_yield();
	f = fault_at(FS_INOTIFY_ADD);
	if (f) { errno = f->err; return -1; }
	return inotify_add_watch(fd, path, mask);
}
int simk_inotify_rm_watch(int fd, int wd)
{
	simk_yield();
	return inotify_rm_watch(fd, wd);
}

/* ---- descriptor I/O -------------------------------------------------------- */
int simk_close(int fd)
{
	int i;
	simk_yield();
	if (!passthru && !(fd >= 0 && fd < NFDL && libfd[fd]) && simk_obs.deadlock) {
		/* every close() the library makes is on a descriptor it created itself and has not closed yet;
		 * anything else is a double close, or the close of somebody else's descriptor */
		static char msg[120];
		snprintf(msg, sizeof(msg), "the library closes descriptor %d, which it does not own (closed before, or never its own)", fd);
		simk_obs.deadlock(msg);
	}
	i = tfd_find(fd);
	if (i >= 0)
		tfd[i].fd = 0;
	simk_fd_disown(fd);
	if (fd >= 0 && fd < NFDL)
		fdmark[fd] = 0;
	if (simk_obs.fd_event)
		simk_obs.fd_event(me, FDEV_CLOSE, fd, 0);
	simk_log(9, fd, 0);
	return close(fd);
}

static size_t shorten(int fd, size_t n, int site)
{
	if (cfg.short_io && fd >= 0 && fd < NFDL && (fdmark[fd] & SIMK_FDM_SHORT) && n > 1) {
		uint64_t h = mixhash(cfg.fault_seed ^ 0x5151, (uint64_t)fd * 8 + site, (uint64_t)site_gcount[site]);
		if (h % (uint64_t)cfg.short_io == 0) {
			simk_stats.short_ios++;
			return 1 + (size_t)((h >> 16) % (n - 1));
		}
	}
	return n;
}

ssize_t simk_read(int fd, void *b, size_t n)
{
	ssize_t r;
	simk_yield();
	if (fd >= 0 && fd < NFDL && (fdmark[fd] & SIMK_FDM_FAULT)) {
		struct simk_fault *f = fault_at(FS_READ);
		if (f) { errno = f->err; return -1; }
	} else {
		site_gcount[FS_READ]++;
		if (fd >= 0 && fd < NFDL && libfd[fd] && tfd_find(fd) < 0) {
			/* the library reads one of its own eventfd / pipe / inotify descriptors: an interrupted or
			 * spuriously empty read is legal and every such reader is written to cope with it */
			struct simk_fault *f = fault_at(FS_LIBREAD);
			if (f) { errno = f->err; return -1; }
		}
	}
	r = read(fd, b, shorten(fd, n, FS_READ));
	if (r > 0 && __tsan_write_range) {
		int e = errno;
		__tsan_write_range(b, (unsigned long)r);
		errno = e;
	}
	if (simk_obs.read_data && r > 0) {
		int e = errno;
		simk_obs.read_data(me, fd, b, r);
		errno = e;
	}
	if (simk_obs.fd_event) {
		int e = errno;
		simk_obs.fd_event(me, FDEV_READ, fd, (long)r);
		errno = e;
	}
	return r;
}

ssize_t simk_write(int fd, const void *b, size_t n)
{
	ssize_t r;
	simk_yield();
	if (fd >= 0 && fd < NFDL && (fdmark[fd] & SIMK_FDM_FAULT)) {
		struct simk_fault *f = fault_at(FS_WRITE);
		if (f) { errno = f->err; return -1; }
	} else {
		site_gcount[FS_WRITE]++;
	}
	if (fd >= 0 && fd < NFDL && libfd[fd] && simk_obs.would_block && !(fcntl(fd, F_GETFL) & O_NONBLOCK)) {
		/* a write by the library on one of its own descriptors that is in blocking mode and has no room:
		 * the real call would put the thread to sleep for good */
		struct pollfd p = { fd, POLLOUT, 0 };
		if (raw_poll(&p, 1) == 0) {
			simk_obs.would_block(me, fd);
			errno = EAGAIN;
			return -1;
		}
	}
	r = write(fd, b, shorten(fd, n, FS_WRITE));
	if (simk_obs.fd_event) {
		int e = errno;
		simk_obs.fd_event(me, FDEV_WRITE, fd, (long)r);
		errno = e;
	}
	return r;
}

ssize_t simk_splice(int fdin, loff_t *oin, int fdout, loff_t *oout, size_t len, unsigned int flags)
{
	struct simk_fault *f;
	ssize_t r;
	simk_yield();
	f = fault_at(FS_SPLICE);
	if (f) { errno = f->err; return -1; }
	if ((fdmark[fdin < NFDL && fdin >= 0 ? fdin : 0] & SIMK_FDM_FAULT) ||
	    (fdmark[fdout < NFDL && fdout >= 0 ? fdout : 0] & SIMK_FDM_FAULT)) {
		f = fault_at(fdmark[fdout < NFDL && fdout >= 0 ? fdout : 0] & SIMK_FDM_FAULT ? FS_WRITE : FS_READ);
		if (f) { errno = f->err; return -1; }
	}
	len = shorten(fdin, len, FS_READ);
	len = shorten(fdout, len, FS_WRITE);
	r = splice(fdin, oin, fdout, oout, len, flags);
	return r;
}

int simk_epoll_ctl(int epfd, int op, int fd, struct epoll_event *ev)
{
	simk_yield();
	if (op == EPOLL_CTL_ADD && ev != NULL && ev->events == 0 && fd >= 0 && fd < NFDL && libfd[fd]) {
		/* a descriptor the library created itself, added with an empty mask: the shared kick descriptor */
		struct simk_fault *f = fault_at(FS_KICK_ADD);
		if (f) { errno = f->err; return -1; }
	}
	simk_log(10, op, fd);
	return epoll_ctl(epfd, op, fd, ev);
}

int simk_shutdown(int fd, int how)
{
	simk_yield();
	if (simk_obs.fd_event)
		simk_obs.fd_event(me, FDEV_SHUTDOWN, fd, how);
	return shutdown(fd, how);
}

int simk_fcntl(int fd, int cmd, ...)
{
	va_list ap;
	long arg;
	int r;
	va_start(ap, cmd);
	arg = va_arg(ap, long);
	va_end(ap);
	r = fcntl(fd, cmd, arg);
	if (simk_obs.fd_event && (cmd == F_SETFL || cmd == F_SETFD)) {
		int e = errno;
		simk_obs.fd_event(me, FDEV_FCNTL, fd, cmd == F_SETFL ? arg : -arg - 1);
		errno = e;
	}
	return r;
}

/* ---- memory ledger ---------------------------------------------------------- */
#define NLED (1 << 16)
static struct { void *p; size_t n; int tid; } led[NLED];
static int nled;
static long ledbytes;

static void led_add(void *p, size_t n)
{
	uint64_t h;
	if (p == NULL)
		return;
	h = ((uint64_t)(uintptr_t)p >> 4) * 0x9e3779b97f4a7c15ULL >> 48;
	while (led[h].p != NULL && led[h].p != (void *)1)
		h = (h + 1) & (NLED - 1);
	led[h].p = p;
	led[h].n = n;
	led[h].tid = me;
	nled++;
	ledbytes += (long)n;
}
static int led_del(void *p)
{
	uint64_t h = ((uint64_t)(uintptr_t)p >> 4) * 0x9e3779b97f4a7c15ULL >> 48;
	int probes = 0;
	while (led[h].p != NULL && probes++ < NLED) {
		if (led[h].p == p) {
			led[h].p = (void *)1;
			nled--;
			ledbytes -= (long)led[h].n;
			return 1;
		}
		h = (h + 1) & (NLED - 1);
	}
	return 0;
}
int simk_ledger_blocks(void) { return nled; }
long simk_ledger_bytes(void) { return ledbytes; }
const char *simk_ledger_describe(char *buf, int len)
{
	int i, o = 0, c = 0;
	buf[0] = 0;
	for (i = 0; i < NLED && o < len - 32 && c < 12; i++)
		if (led[i].p != NULL && led[i].p != (void *)1) {
			o += snprintf(buf + o, len - o, "%zuB(by t%d) ", led[i].n, led[i].tid);
			c++;
		}
	return buf;
}

void *simk_malloc(size_t n)
{
	void *p = malloc(n);
	led_add(p, n);
	return p;
}
void *simk_calloc(size_t a, size_t b)
{
	void *p = calloc(a, b);
	led_add(p, a * b);
	return p;
}
char *simk_strdup(const char *s)
{
	char *p = strdup(s);
	led_add(p, strlen(s) + 1);
	return p;
}
void simk_free(void *p)
{
	if (p != NULL)
		led_del(p);
	free(p);
}

/* ---- signals ------------------------------------------------------------------ */
static int sig_passthrough(int sig) { return sig == SIGPIPE || sig == SIGURG; }

sighandler_t simk_signal(int sig, sighandler_t h)
{
	if (sig_passthrough(sig))
		return signal(sig, h);
	if (sig < 1 || sig > 64) {
		errno = EINVAL;
		return SIG_ERR;
	}
	sigtab[sig].kind = h == SIG_DFL ? 0 : h == SIG_IGN ? 1 : 2;
	sigtab[sig].h = h;
	sigtab[sig].mask = 0;
	return SIG_DFL;
}

int simk_sigaction(int sig, const struct sigaction *act, struct sigaction *old)
{
	simk_yield();
	if (sig < 1 || sig > 64 || sig == SIGKILL || sig == SIGSTOP) {
		errno = EINVAL;
		return -1;
	}
	if (old != NULL) {
		memset(old, 0, sizeof(*old));
		old->sa_handler = sigtab[sig].kind == 0 ? SIG_DFL : sigtab[sig].kind == 1 ? SIG_IGN : sigtab[sig].h;
		bits_to_set(sigtab[sig].mask, &old->sa_mask);
		old->sa_flags = sigtab[sig].flags;
	}
	if (act != NULL) {
		sigtab[sig].kind = act->sa_handler == SIG_DFL ? 0 : act->sa_handler == SIG_IGN ? 1 : 2;
		sigtab[sig].h = act->sa_handler;
		sigtab[sig].mask = set_to_bits(&act->sa_mask);
		sigtab[sig].flags = act->sa_flags;
		if (__tsan_release)
			__tsan_release(&sigtab[sig]);
		simk_log(50, sig, sigtab[sig].kind);
	}
	return 0;
}
int simk_sigaction_query(int sig) { return sigtab[sig].kind; }
void *simk_sigaction_handler(int sig) { return (void *)sigtab[sig].h; }
int simk_harness_sigaction(int sig, void (*fn)(int))
{
	sigtab[sig].kind = fn ? 2 : 0;
	sigtab[sig].h = fn;
	sigtab[sig].mask = ~0ULL;
	sigtab[sig].flags = 0;
	return 0;
}

static void run_handler(int sig)
{
	uint64_t saved = T[me].sigmask;

	if (sigtab[sig].kind != 2) {
		/* default / ignore: recorded, not executed */
		simk_log(52, sig, sigtab[sig].kind);
		if (simk_obs.sig_deliver)
			simk_obs.sig_deliver(me, sig, 2 + sigtab[sig].kind);
		return;
	}
	T[me].sigmask |= sigtab[sig].mask | SBIT(sig);
	T[me].in_sighandler++;
	simk_stats.sig_delivered++;
	simk_log(51, sig, me);
	if (simk_obs.sig_deliver)
		simk_obs.sig_deliver(me, sig, 0);
	if (__tsan_acquire)
		__tsan_acquire(&sigtab[sig]);
	sigtab[sig].h(sig);
	if (simk_obs.sig_deliver)
		simk_obs.sig_deliver(me, sig, 1);
	T[me].in_sighandler--;
	T[me].sigmask = saved;
}

/* deliver pending, unmasked signals to the running thread.
 * always=0: at a plain yield point, a decision is drawn per signal. */
static void deliver_signals(int always)
{
	for (;;) {
		uint64_t d = deliverable(me);
		int sig;
		if (!d)
			return;
		sig = __builtin_ctzll(d) + 1;
		if (!always) {
			int take;
			if (cfg.replay != NULL) {
				take = replay_pos < cfg.nreplay ? cfg.replay[replay_pos] : 0;
				replay_pos++;
				take &= 1;
			} else {
				take = (rnd() % 100) < 25;
			}
			if (ndec < MAXDEC)
				dec[ndec++] = (uint8_t)take;
			hmix(&schedhash, 100 + take);
			if (!take)
				return;
		}
		if (T[me].sigpend & SBIT(sig))
			T[me].sigpend &= ~SBIT(sig);
		else
			proc_sigpend &= ~SBIT(sig);
		run_handler(sig);
	}
}

int simk_pthread_sigmask(int how, const sigset_t *set, sigset_t *old)
{
	uint64_t b;

	simk_yield();
	/* the caller's buffers are read and written on its behalf (visible to the race detector) */
	if (old != NULL && __tsan_write_range)
		__tsan_write_range(old, sizeof(*old));
	if (set != NULL && __tsan_read_range)
		__tsan_read_range((void *)set, sizeof(*set));
	if (old != NULL)
		bits_to_set(T[me].sigmask, old);
	if (set != NULL) {
		b = set_to_bits(set) & ~(SBIT(SIGKILL) | SBIT(SIGSTOP));
		if (how == SIG_BLOCK)
			T[me].sigmask |= b;
		else if (how == SIG_UNBLOCK)
			T[me].sigmask &= ~b;
		else
			T[me].sigmask = b;
		if (deliverable(me))
			deliver_signals(1);
	}
	return 0;
}
int simk_sigprocmask(int how, const sigset_t *set, sigset_t *old)
{
	return simk_pthread_sigmask(how, set, old);
}

static void raise_process_sig(int sig)
{
	simk_stats.sig_sent++;
	if (sigtab[sig].kind == 1 || (sigtab[sig].kind == 0 && (sig == SIGCHLD || sig == SIGURG || sig == SIGWINCH))) {
		/* ignored: discarded at generation time, as the kernel does */
		simk_log(53, sig, 0);
		return;
	}
	if (proc_sigpend & SBIT(sig))
		simk_stats.sig_coalesced++;
	proc_sigpend |= SBIT(sig);
	simk_log(54, sig, 0);
}
int simk_raise_process(int sig)
{
	raise_process_sig(sig);
	simk_yield();
	return 0;
}
int simk_raise_thread(int tid, int sig)
{
	simk_stats.sig_sent++;
	if (sigtab[sig].kind == 1)
		return 0;
	if (T[tid].sigpend & SBIT(sig))
		simk_stats.sig_coalesced++;
	T[tid].sigpend |= SBIT(sig);
	simk_log(55, sig, tid);
	simk_yield();
	return 0;
}

/* ---- processes ------------------------------------------------------------------ */
void simk_next_child_script(const struct simk_child_script *s)
{
	next_script = *s;
	have_next_script = 1;
}
void simk_set_real_fork(int on) { real_fork_next_t[me] = on; }	/* applies to the calling thread's next fork() */

static struct sproc *proc_find(pid_t pid)
{
	int i;
	/* the most recent entry for a pid wins (pid reuse) */
	for (i = nproc - 1; i >= 0; i--)
		if (P[i].pid == pid)
			return &P[i];
	return NULL;
}

static void proc_die(struct sproc *p, int status)
{
	p->state = 3;
	p->status = status;
	p->exit_at = -1;
	p->report_stop = p->report_cont = 0;
	simk_log(60, PIDLOG(p), status);
	if (simk_obs.child_event)
		simk_obs.child_event(p->pid, (int)(p - P), 3, status);
	raise_process_sig(SIGCHLD);
}

static struct sproc *proc_new(const struct simk_child_script *s, int stranger)
{
	struct sproc *p;
	int i;

	if (nproc >= NPROC)
		return NULL;
	p = &P[nproc++];
	memset(p, 0, sizeof(*p));
	if (nfree_pids > 0) {
		p->pid = free_pids[--nfree_pids];
		simk_stats.pid_reused++;
	} else {
		p->pid = next_pid++;
	}
	p->state = 1;
	p->stranger = stranger;
	p->exit_at = s->exit_after_ns < 0 ? -1 : vnow + s->exit_after_ns;
	p->exit_status = s->exit_status;
	p->term_mode = s->term_mode;
	p->term_n = s->term_n;
	p->term_delay = s->term_delay_ns;
	p->nstops = s->nstops > 4 ? 4 : s->nstops;
	for (i = 0; i < p->nstops; i++) {
		p->stop_at[i] = vnow + s->stop_at_ns[i];
		p->cont_at[i] = vnow + s->cont_at_ns[i];
	}
	simk_stats.forks++;
	simk_log(61, p->pid, stranger);
	if (simk_obs.child_event)
		simk_obs.child_event(p->pid, (int)(p - P), 1, 0);
	return p;
}


static void proc_events(void)
{
	int i;
	for (i = 0; i < nproc; i++) {
		struct sproc *p = &P[i];
		int progress = 1;
		if (p->state != 1 && p->state != 2)
			continue;
		while (progress) {
			int k = p->stop_idx;
			progress = 0;
			if (p->state == 1 && k < p->nstops && p->stop_at[k] >= 0 && p->stop_at[k] <= vnow) {
				p->state = 2;
				p->stop_at[k] = -1;
				p->report_stop = 1;
				p->report_cont = 0;
				simk_log(62, p->pid, 0);
				raise_process_sig(SIGCHLD);
				progress = 1;
			} else if (p->state == 2 && !p->manual_stop && k < p->nstops && p->stop_at[k] < 0 && p->cont_at[k] <= vnow) {
				p->state = 1;
				p->report_cont = 1;
				p->report_stop = 0;
				p->stop_idx++;
				simk_log(63, p->pid, 0);
				raise_process_sig(SIGCHLD);
				progress = 1;
			}
		}
		if (p->state == 1 && p->exit_at >= 0 && p->exit_at <= vnow)
			proc_die(p, p->exit_status);
	}
}

static int64_t proc_next_time(void)
{
	int64_t next = -1;
	int i;
	for (i = 0; i < nproc; i++) {
		struct sproc *p = &P[i];
		int64_t t = -1;
		int k = p->stop_idx;
		if (p->state == 1) {
			if (p->exit_at >= 0)
				t = p->exit_at;
			if (k < p->nstops && p->stop_at[k] >= 0 && (t < 0 || p->stop_at[k] < t))
				t = p->stop_at[k];
		} else if (p->state == 2 && !p->manual_stop && k < p->nstops && p->stop_at[k] < 0) {
			t = p->cont_at[k];
		}
		if (t >= 0 && (next < 0 || t < next))
			next = t;
	}
	return next;
}

int simk_children_unreaped(void)
{
	int i, n = 0;
	for (i = 0; i < nproc; i++)
		if (P[i].state != 4)
			n++;
	return n;
}
int simk_child_state(pid_t pid)
{
	struct sproc *p = proc_find(pid);
	return p ? p->state : 0;
}
int simk_child_nsigs(pid_t pid)
{
	struct sproc *p = proc_find(pid);
	return p ? p->nsigs : 0;
}
int64_t simk_child_sigtime(pid_t pid, int idx, int *sig)
{
	struct sproc *p = proc_find(pid);
	if (!p || idx >= p->nsigs || idx >= 32)
		return -1;
	*sig = p->sigs[idx].sig;
	return p->sigs[idx].t;
}
long simk_child_sigcount(pid_t pid, int sig)
{
	struct sproc *p = proc_find(pid);
	long n = 0;
	int i;
	if (!p)
		return 0;
	for (i = 0; i < p->nsigs && i < 32; i++)
		if (p->sigs[i].sig == sig)
			n++;
	return n;
}
int simk_child_kill_after_reap(void) { return kill_after_reap; }
/* harness: fork a real child of the run's process; in the child the simulator is pass-through */
pid_t simk_real_fork(void)
{
	pid_t pid;
	fflush(NULL);
	pid = fork();
	if (pid == 0) {
		passthru = 1;
		SH = calloc(1, sizeof(*SH));
		alarm(10);
	}
	return pid;
}

/* harness: block (in real time, the simulated world stands still) until the really forked child has
 * ended, then make its death visible in the simulated process table; returns its wait status */
int simk_real_child_wait(pid_t pid)
{
	struct sproc *p = proc_find(pid);
	siginfo_t si;
	int st = 0;

	memset(&si, 0, sizeof(si));
	while (waitid(P_PID, (id_t)pid, &si, WEXITED | WNOWAIT) < 0 && errno == EINTR)
		;
	if (si.si_code == CLD_EXITED)
		st = (si.si_status & 0xff) << 8;
	else
		st = si.si_status & 0x7f;
	if (p != NULL && p->real && (p->state == 1 || p->state == 2))
		proc_die(p, st);
	return st;
}

int simk_child_serial(pid_t pid)
{
	struct sproc *p = proc_find(pid);
	return p ? (int)(p - P) : -1;
}
void simk_set_sigmask(int tid, uint64_t mask) { T[tid].sigmask = mask; }

/* atfork handlers recorded from the library */
static struct { void (*prep)(void), (*parent)(void), (*child)(void); } atf[8];
static int natf;
int simk_pthread_atfork(void (*prep)(void), void (*parent)(void), void (*child)(void))
{
	if (natf < 8) {
		atf[natf].prep = prep;
		atf[natf].parent = parent;
		atf[natf].child = child;
		natf++;
	}
	return 0;
}

pid_t simk_fork(void)
{
	struct simk_child_script dflt;
	struct simk_fault *f;
	struct sproc *p;
	int i;

	simk_yield();
	f = fault_at(FS_FORK);
	if (f) { errno = f->err; return -1; }

	for (i = natf - 1; i >= 0; i--)
		if (atf[i].prep)
			atf[i].prep();

	if (real_fork_next_t[me]) {
		pid_t pid;
		real_fork_next_t[me] = 0;
		fflush(NULL);
		pid = fork();
		if (pid == 0) {
			/* child: single thread, pass-through from here on; it must not write into the
			 * result / log area it shares with the parent */
			passthru = 1;
			SH = calloc(1, sizeof(*SH));
			alarm(10);	/* a puppet never outlives its purpose (survives exec) */
			for (i = 0; i < natf; i++)
				if (atf[i].child)
					atf[i].child();
			return 0;
		}
		if (pid > 0 && nproc < NPROC) {
			p = &P[nproc++];
			memset(p, 0, sizeof(*p));
			p->pid = pid;
			p->state = 1;
			p->real = 1;
			p->exit_at = -1;
			simk_stats.forks++;
			simk_log(61, 0, 2);
			if (simk_obs.child_event)
				simk_obs.child_event(pid, (int)(p - P), 1, 0);
		}
		for (i = 0; i < natf; i++)
			if (atf[i].parent)
				atf[i].parent();
		return pid;
	}

	if (!have_next_script) {
		memset(&dflt, 0, sizeof(dflt));
		dflt.exit_after_ns = 1000000;
		have_next_script = 0;
		p = proc_new(&dflt, 0);
	} else {
		have_next_script = 0;
		p = proc_new(&next_script, 0);
	}
	if (p == NULL) {
		for (i = 0; i < natf; i++)
			if (atf[i].parent)
				atf[i].parent();
		errno = EAGAIN;
		return -1;
	}
	/* a child may already have changed state before fork returns */
	proc_events();
	for (i = 0; i < natf; i++)
		if (atf[i].parent)
			atf[i].parent();
	simk_yield();
	return p->pid;
}

pid_t simk_spawn_stranger(const struct simk_child_script *s)
{
	/* an application thread calls fork() on its own: the registered fork handlers run around it,
	 * as they would in a real process */
	struct sproc *p;
	pid_t pid;
	int i;

	simk_yield();
	for (i = natf - 1; i >= 0; i--)
		if (atf[i].prep)
			atf[i].prep();
	p = proc_new(s, 1);
	pid = p ? p->pid : -1;
	for (i = 0; i < natf; i++)
		if (atf[i].parent)
			atf[i].parent();
	simk_yield();
	return pid;
}

pid_t simk_wait4(pid_t pid, int *status, int options, struct rusage *ru)
{
	int i, cand[NPROC], n = 0, have_children = 0;
	struct sproc *p;

	simk_yield();
	if (ru)
		memset(ru, 0, sizeof(*ru));
	for (i = 0; i < nproc; i++) {
		p = &P[i];
		if (p->state == 4)
			continue;
		if (pid > 0 && p->pid != pid)
			continue;
		have_children = 1;
		if (p->state == 3 ||
		    (p->report_stop && (options & WUNTRACED)) ||
		    (p->report_cont && (options & WCONTINUED)))
			cand[n++] = i;
	}
	if (!have_children) {
		errno = ECHILD;
		return -1;
	}
	if (n == 0) {
		if (options & WNOHANG)
			return 0;
		fprintf(stderr, "simk: blocking wait4 not supported\n");
		abort();
	}
	i = cand[mixhash(cfg.fault_seed ^ 0x77, (uint64_t)simk_stats.reaps, (uint64_t)n) % (uint64_t)n];
	p = &P[i];
	simk_stats.reaps++;
	if (p->state == 3) {
		*status = p->status;
		p->state = 4;
		if (p->real) {
			int st;
			while (waitpid(p->pid, &st, 0) < 0 && errno == EINTR)
				;
		} else if (nfree_pids < NPROC && !pid_is_held(p->pid))
			free_pids[nfree_pids++] = p->pid;
	} else if (p->report_stop) {
		*status = 0x7f | (SIGSTOP << 8);
		p->report_stop = 0;
	} else {
		*status = 0xffff;
		p->report_cont = 0;
	}
	simk_log(64, PIDLOG(p), *status);
	if (simk_obs.reap)
		simk_obs.reap(me, p->pid, *status);
	return p->pid;
}

pid_t simk_waitpid(pid_t pid, int *status, int options)
{
	return simk_wait4(pid, status, options, NULL);
}

int simk_kill(pid_t pid, int sig);
/* pids the harness wants kept out of circulation (a plain wait interest refers to them) */
static pid_t held_pids[NPROC];
static int nheld;
void simk_pid_hold(pid_t pid, int on)
{
	int i;
	if (on) {
		if (nheld < NPROC)
			held_pids[nheld++] = pid;
		/* also withdraw it if it is already waiting for reuse */
		for (i = 0; i < nfree_pids; i++)
			if (free_pids[i] == pid) {
				free_pids[i] = free_pids[--nfree_pids];
				break;
			}
		return;
	}
	for (i = 0; i < nheld; i++)
		if (held_pids[i] == pid) {
			held_pids[i] = held_pids[--nheld];
			break;
		}
}
static int pid_is_held(pid_t pid)
{
	int i;
	for (i = 0; i < nheld; i++)
		if (held_pids[i] == pid)
			return 1;
	return 0;
}
static int env_kill;	/* the environment (not the library) is signalling a child */

/* harness: the application or an outsider signals a child directly */
int simk_env_kill(pid_t pid, int sig)
{
	struct sproc *p = proc_find(pid);
	int r;
	if (p == NULL || p->state == 4)
		return -1;
	env_kill = 1;
	r = simk_kill(pid, sig);
	env_kill = 0;
	return r;
}

int simk_kill(pid_t pid, int sig)
{
	struct sproc *p;
	int r = 0;

	if (!env_kill)
		simk_yield();
	if (pid == getpid()) {
		raise_process_sig(sig);
		return 0;
	}
	p = proc_find(pid);
	if (p == NULL) {
		errno = ESRCH;
		r = -1;
	} else if (p->state == 4) {
		/* termination already reaped: the pid is free or belongs to somebody else */
		kill_after_reap++;
		errno = ESRCH;
		r = -1;
		simk_log(66, PIDLOG(p), sig);
	} else {
		int i, reused = 0;
		/* an older, reaped entry with the same pid means the pid was recycled */
		for (i = 0; i < nproc; i++)
			if (&P[i] != p && P[i].pid == pid && P[i].state == 4)
				reused = 1;
		(void)reused;
		if (p->nsigs < 32) {
			p->sigs[p->nsigs].sig = sig;
			p->sigs[p->nsigs].t = vnow;
		}
		p->nsigs++;
		simk_log(65, PIDLOG(p), sig);
		if (p->real && p->state == 1) {
			kill(p->pid, sig);	/* a puppet child that is (unexpectedly) still running */
		} else if (p->state == 1 || p->state == 2) {
			int fatal = 0;
			if (sig == SIGKILL)
				fatal = 1;
			else if (sig == SIGTERM || sig == SIGINT || sig == SIGHUP || sig == SIGUSR1 || sig == SIGUSR2) {
				p->nsig_fatal++;
				if (p->term_mode == 0)
					fatal = 1;
				else if (p->term_mode == 2 && p->nsig_fatal >= p->term_n)
					fatal = 1;
			} else if (sig == SIGCONT && p->state == 2) {
				p->state = 1;
				p->report_cont = 1;
				p->report_stop = 0;
				if (!p->manual_stop && p->stop_idx < p->nstops && p->stop_at[p->stop_idx] < 0)
					p->stop_idx++;	/* continued early: the scripted continue is void */
				p->manual_stop = 0;
				raise_process_sig(SIGCHLD);
			} else if (sig == SIGSTOP && p->state == 1) {
				p->state = 2;
				p->manual_stop = 1;
				p->report_stop = 1;
				p->report_cont = 0;
				raise_process_sig(SIGCHLD);
			}
			if (fatal && sig != SIGKILL && p->state == 2)
				fatal = 0;	/* stays pending while stopped; simplification: ignored */
			if (fatal) {
				if (p->term_delay > 0 && sig != SIGKILL) {
					if (p->exit_at < 0 || vnow + p->term_delay < p->exit_at) {
						p->exit_at = vnow + p->term_delay;
						p->exit_status = sig;	/* killed by signal */
					}
				} else {
					proc_die(p, sig);
				}
			}
		}
	}
	if (simk_obs.kill && !env_kill)
		simk_obs.kill(me, pid, sig, r);
	return r;
}

/* ---- run control ------------------------------------------------------------------- */
void simk_global_init(void)
{
	pthread_key_create(&exit_key, exit_dtor);
	SH = mmap(NULL, sizeof(*SH), PROT_READ | PROT_WRITE, MAP_SHARED | MAP_ANONYMOUS, -1, 0);
	if (SH == MAP_FAILED)
		abort();
}
struct simk_shared *simk_shared(void) { return SH; }
void simk_shared_reset(void)
{
	ndec = 0;
	nring = 0;
	loghash = schedhash = 0;
	memset(&simk_stats, 0, sizeof(simk_stats));
	SH->result_len = 0;
	SH->result[0] = 0;
}

void simk_run_begin(const struct simk_cfg *c)
{
	int i;

	cfg = *c;
	if (cfg.max_steps <= 0)
		cfg.max_steps = 400000;
	if (cfg.max_vtime_ns <= 0)
		cfg.max_vtime_ns = 900LL * 1000000000LL;
	rng = cfg.sched_seed;
	loghash = 1469598103934665603ULL;
	schedhash = 1469598103934665603ULL;
	vnow = vstart = cfg.start_ns > 0 ? cfg.start_ns : 1000000000LL;
	memset(T, 0, sizeof(T));
	me = 0;
	nthr = 1;
	T[0].state = ST_RUNNABLE;
	T[0].epfd = -1;
	T[0].pt = pthread_self();
	T[0].ktid = (pid_t)syscall(SYS_gettid);
	T[0].prio = 1000000;
	T[0].sigmask = ~0ULL;		/* the supervisor never takes simulated signals */
	for (i = 0; i < NLK; i++)
		lk[i].owner = -1;
	ndec = 0;
	nring = 0;
	replay_pos = 0;
	rr_left = cfg.rr_quantum;
	steps_since_advance = 0;
	memset(real_fork_next_t, 0, sizeof(real_fork_next_t));
	nheld = 0;
	pct_nchange = cfg.pct_depth > 8 ? 8 : cfg.pct_depth;
	for (i = 0; i < pct_nchange; i++)
		pct_change[i] = 1 + (long)(mixhash(cfg.sched_seed, 99, (uint64_t)i) % 600);
	memset(&simk_stats, 0, sizeof(simk_stats));
}

int64_t simk_vstart(void) { return vstart; }
void simk_finish_stats(void) { simk_stats.vtime = vnow - vstart; }
