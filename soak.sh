#!/bin/sh
# soak.sh [first_seed] [n_seeds] [workers] -- run every quick check under several VERIF_SEED values
# (used in the background through `vp run` to flush out rare oracle false alarms / rare violations)
first=${1:-101}; n=${2:-8}; w=${3:-6}
cd "$(dirname "$0")" || exit 2
# with `vp run --with-repo` use the snapshot of /repo HEAD, so that edits to /repo do not disturb the soak
if [ -n "$VP_RUN_REPO" ]; then IVSIM_REPO=$VP_RUN_REPO; export IVSIM_REPO; fi
python3 build.py asan tsan >/dev/null || exit 2
props=$(python3 -c "import check; print(' '.join(sorted(check.PROPS)))")
s=$first
while [ $s -lt $((first + n)) ]; do
	for p in $props; do
		VERIF_SEED=$s VERIF_WORKERS=$w ./check $p quick 2>&1 | grep -E "^VIOLATION|^  id=|^  [a-z]|^KNOWN|MACHINERY|^SUMMARY" | sed "s/^/[seed $s] /"
	done
	s=$((s + 1))
done
