/* engine.h -- runtime state of the harness, shared between engine.c and ext.c */
#ifndef ENGINE_H
#define ENGINE_H

#include "hz.h"
#include <iv.h>
#include <iv_event_raw.h>

#define COOKIE_MAGIC 0x1c00c1e5u

struct cookie {
	uint32_t magic;
	int	id;
	int	gen;
};

struct robj {
	void		*mem;
	size_t		memsz;
	struct cookie	*ck;
	int		registered;
	int		gen;
	int		attempts;	/* registration attempts so far (a planned failure hits the first) */
	long		ncb;
	/* chan */
	int		ctype, cfd[2], copen[2];
	/* fd */
	int		hv[3], fdnum;
	long		snap_round;
	int		snap_truth, snap_tmp;
	long		last_cb_round[3];
	int		starve[3], hchanged[3], entered[3];
	/* timer */
	int64_t		expiry;
	uint64_t	reg_seq;
	/* task */
	long		last_entry_waits, last_entry_main;
	/* event / raw */
	long		posts, entries;
	uint64_t	post_begin_seq, post_done_seq, last_entry_seq;
	int		posting, closing;
	/* extension state (signals, wait, pools, ...) */
	void		*x;
	int64_t		xi[8];
};

struct rthr {
	int		sim;
	int		inited, in_main, depth, quit_req, finished, cycle, post_main;
	long		round, nwaits, cbs, main_entries;
	int64_t		last_clock, wait_tmo, clock_at_wait;
	int		have_clock;
	long		clockreads, clockreads_at_return;
	int		api_try, spin, last_ret_failed, idle_polls;
	int		cur_kind, cur_obj, last_kind;
	long		last_cb_wait;
	uint64_t	timer_round_seq;
	int		timer_round_len;
	struct iv_event_raw td_raw;
	int		td_registered, td_requested;
	int		in_wait_cb;	/* inside a callback that may run the child reaper */
	long		nwaits_in_main;	/* kernel polls entered since iv_main was entered */
	uint64_t	seq_at_wait;	/* SEQ when the last kernel poll was entered */
	long		steps_at_progress;	/* simulator steps of this thread at its last visible progress */
	int		ext_live;	/* model count of library-internal loop references (pools, threads, ...) */
};

enum {
	PR_UNREG_IN_CB, PR_UNREG_READY_FD, PR_UNREG_EXPIRED_TIMER, PR_UNREG_PENDING_TASK,
	PR_UNREG_POSTED_EVENT, PR_SETH_IN_CB, PR_REG_IN_CB, PR_TRY_FAILED, PR_TIMER_FIRED,
	PR_TASK_RAN, PR_TASK_DEFERRED_REG, PR_EVENT_CB, PR_RAW_CB, PR_FD_CB, PR_POST_CROSS,
	PR_POST_SELF, PR_POST_COALESCED, PR_QUIT, PR_NATURAL_RETURN, PR_TEARDOWN, PR_REINIT_REUSE,
	PR_BLOCK, PR_EINTR_SEEN, PR_CYCLES, PR_FD_HUP, PR_ONESHOT_REREG, PR_MULTI_DUE,
	PR_THREAD_EXIT_NODEINIT, PR_SIG_CB, PR_SIG_DURING_HANDLER, PR_SIG_HANDOFF, PR_WAIT_CB,
	PR_PID_REUSED, PR_KILL_DEAD, PR_WORK_RUN, PR_WORK_DONE, PR_POOL_PUT_BUSY, PR_IDLE_TIMEOUT,
	PR_PUMP_BYTES, PR_PUMP_FULL, PR_PUMP_EOF, PR_INOT_CB, PR_INOT_MULTI, PR_POPEN_KILL,
	PR_REG_FAILED_EVENT, PR_TIMER_MANY, PR_RADIX_CROSS, PR_SIG_NOWALK, PR_SIG_FOREIGN, PR_REG_FAILED_EXT, PR_TIMER_PARKED, PR_REENTER, PR_PUMP_KICK, PR_WORK_DEPENDS, PR_TASK_FOREIGN_INIT, PR_INOT_FLOOD, PR_UNREG_INFLIGHT,
	PR_MAX
};

#define PARKED_NS	(INT64_MAX / 2)	/* model expiry of a parked timer */
extern const struct plan *PL;
extern int VERBOSE;
extern uint64_t SEQ;
extern struct robj RO[MAXOBJ];
extern struct rthr RT[MAXTHR];
extern int sim2plan[SIMK_MAXT];
extern long PROBE[PR_MAX];
extern long CBS[K_MAX];
extern long OPS[OP_MAX];

/* a registration whose plan object says so (p7) fails at its first attempt: the fault is armed for the
 * calling thread's next call at the site and disarmed again if that call never happened */
int reg_fault_arm(int id, int want, int site, int err);
void reg_fault_disarm(int site);
long faults_fired_total(void);
void unexplained_failure(const char *what, int id, long fired_before);
void note_progress(struct rthr *th);
void engine_lock_event(int tid, int acquired, int spin);
void hb_release(void *a);
void hb_acquire(void *a);
void viol(const char *id, const char *fmt, ...) __attribute__((format(printf, 2, 3)));
int have_viol(void);
void finish(int status) __attribute__((noreturn));
struct rthr *cur_thr(void);
int live_objects(struct rthr *th);
int live_upper(struct rthr *th);
void note_freed(void *p, size_t n);
void obj_free_mem(int id);
struct cookie *new_cookie(int id);
void generic_cb(void *ck, int kind, int band, int64_t x1, int64_t x2);
int exec_op(struct rthr *th, const struct pop *op);
int op_unreg(struct rthr *th, int id, int keep);
int op_post(struct rthr *th, int id, int limited);
long chan_write(int chan, int end, long n);
long chan_read(int chan, int end, long n);

/* extension points implemented in ext.c */
int ext_live(int id);
int ext_maybe_live(int id);
int ext_mem_idle(int id);
int ext_posts_in_flight(int owner_thread);
int ext_reg(struct rthr *th, int id, const struct pop *op);
int ext_unreg(struct rthr *th, int id, int keep);
int ext_op(struct rthr *th, const struct pop *op);
void ext_cb(struct rthr *th, int id, int kind, int band, int64_t x1, int64_t x2);
void ext_cb_exit(struct rthr *th, int id, int kind);
int ext_foreign_thread_ok(int id, int kind);
int ext_nesting_ok(int kind, int outer_kind);
int ext_stale_ok(int id, int kind, int band);
void ext_timer_order(struct rthr *th, int id);
void ext_wait_block(struct rthr *th);
void ext_wait_return(struct rthr *th, int res, int err);
void ext_time_advance(int64_t from, int64_t to);
void ext_budget(const char *what);
void ext_deadlock(const char *what);
const char *ext_uaf_hint(void);
const char *ext_uaf_prop(void);
void ext_teardown(struct rthr *th);
void ext_post_main(struct rthr *th);
void ext_after_first_init(void);
void ext_install_obs(void);
void ext_run_begin(void);
void ext_obligations(void);
void ext_end_of_run(int all_exited);

#endif
