/* gen.c -- seeded plan generators (swarm style: every run draws its own
 * configuration, object mix, fault kinds and scheduling strategy) */
#define _GNU_SOURCE
#include <errno.h>
#include <stdlib.h>
#include <string.h>
#include "hz.h"

uint64_t sm64(uint64_t *s)
{
	uint64_t z = (*s += 0x9e3779b97f4a7c15ULL);
	z = (z ^ (z >> 30)) * 0xbf58476d1ce4e5b9ULL;
	z = (z ^ (z >> 27)) * 0x94d049bb133111ebULL;
	return z ^ (z >> 31);
}

static uint64_t S;
static int R(int n) { return n <= 0 ? 0 : (int)(sm64(&S) % (uint64_t)n); }
static int P(int pct) { return R(100) < pct; }
static int64_t pick64(const int64_t *v, int n) { return v[R(n)]; }

static struct plan *G;

static int add_obj(int kind, int owner)
{
	int i = G->nobj;
	if (i >= MAXOBJ)
		return -1;
	G->nobj++;
	memset(&G->obj[i], 0, sizeof(G->obj[i]));
	G->obj[i].kind = kind;
	G->obj[i].owner = owner;
	return i;
}
static struct pop *add_op(int ctx, int ctxid, int when, int op, int64_t d, int64_t a, int64_t b, int64_t c)
{
	struct pop *o;
	if (G->nops >= MAXOPS)
		return NULL;
	o = &G->ops[G->nops++];
	o->ctx = ctx; o->ctxid = ctxid; o->when = when; o->op = op;
	o->d = d; o->a = a; o->b = b; o->c = c;
	return o;
}
static void add_fault(int site, int tid, int k, int sticky, int err, int mode, int64_t param)
{
	struct simk_fault *f;
	if (G->nfaults >= MAXFLT)
		return;
	f = &G->faults[G->nfaults++];
	memset(f, 0, sizeof(*f));
	f->site = site; f->tid = tid; f->k = k; f->sticky = sticky; f->err = err; f->mode = mode; f->param = param;
}

static const int64_t deltas[] = {
	0, 1, 999, 1000, 999999, 1000000, 1000001, 1500000, 2000000, 7000000, 10000000,
	10000000, 50000000, 100000000, 999999999, 1000000000, 1000000001, 3000000000LL,
	10000000000LL, 10000000000LL, 60000000000LL,
};
#define NDELTAS ((int)(sizeof(deltas) / sizeof(deltas[0])))

static void gen_common_cfg(int nthreads_hint)
{
	struct simk_cfg *c = &G->cfg;
	int r;

	c->sched_seed = sm64(&S);
	c->fault_seed = sm64(&S);
	c->start_ns = 1000000000LL + (int64_t)(sm64(&S) % 3000000000ULL);
	r = R(100);
	if (nthreads_hint <= 1) {
		c->strategy = 0;
		c->p_switch = 10;
	} else if (r < 55) {
		static const int ps[] = { 0, 2, 5, 10, 30, 60 };
		c->strategy = 0;
		c->p_switch = ps[R(6)];
	} else if (r < 85) {
		c->strategy = 1;
		c->pct_depth = 1 + R(3);
	} else {
		c->strategy = 2;
		c->rr_quantum = 1 + R(12);
	}
	r = R(100);
	c->yield_cost_ns = r < 70 ? 0 : r < 80 ? 1 : r < 92 ? 1000 : 50000;
	c->batch_trunc = P(25) ? 2 + R(3) : 0;
	r = R(100);
	G->method_excl = r < 34 ? 0 : r < 56 ? 1 : r < 78 ? 3 : 7;
	G->excl_style = R(8);
}

/* choose the configuration faults ("optional facility missing from the first call") */
static void gen_absent_facilities(int pct)
{
	if (P(pct))
		add_fault(FS_PWAIT2, -1, 1, 1, P(50) ? ENOSYS : EPERM, 0, 0);
	if (P(pct))
		add_fault(FS_EPOLL_CREATE1, -1, 1, 1, ENOSYS, 0, 0);
	if (P(pct)) {
		add_fault(FS_EVENTFD2, -1, 1, 1, P(50) ? EINVAL : ENOSYS, 0, 0);
		if (P(50))
			add_fault(FS_EVENTFD, -1, 1, 1, ENOSYS, 0, 0);
	}
	if (P(pct))
		add_fault(FS_PPOLL, -1, 1, 1, ENOSYS, 0, 0);
}

static void gen_eintr(int nloops, int pct)
{
	int n;
	if (!P(pct))
		return;
	n = 1 + R(3);
	while (n-- > 0) {
		int mode = R(3);
		add_fault(FS_WAIT, 1 + R(nloops), 1 + R(P(70) ? 8 : 40), 0, EINTR, mode,
			  mode == 2 ? pick64(deltas, NDELTAS) : 0);
	}
}

struct zoo_w {
	int	nloops_max, ndrv_max;
	int	nfd, ntimer, ntask, nevent, nraw;	/* max per loop */
	int	w_unreg, w_reg, w_seth, w_post, w_io, w_quit, w_work, w_close, w_cookie;
	int	cycles_pct, faults_pct, eintr_pct, emfile_pct, tryfail_pct, reuse_pct;
	int	acts_max;
};

static void zoo_weights(struct zoo_w *w, const char *prop)
{
	static const struct zoo_w base = {
		.nloops_max = 2, .ndrv_max = 2, .nfd = 4, .ntimer = 4, .ntask = 3, .nevent = 3, .nraw = 2,
		.w_unreg = 25, .w_reg = 20, .w_seth = 12, .w_post = 12, .w_io = 18, .w_quit = 2, .w_work = 4,
		.w_close = 4, .w_cookie = 1, .cycles_pct = 12, .faults_pct = 8, .eintr_pct = 15,
		.emfile_pct = 0, .tryfail_pct = 6, .reuse_pct = 30, .acts_max = 4,
	};
	*w = base;
	if (!strcmp(prop, "C01")) {
		w->w_unreg = 45; w->w_reg = 25; w->acts_max = 5;
	} else if (!strcmp(prop, "C02") || !strcmp(prop, "C03")) {
		w->nfd = 6; w->ntimer = 1; w->ntask = 2; w->nevent = 1; w->nraw = 1;
		w->w_seth = 35; w->w_io = 30; w->w_close = 8; w->w_cookie = 3; w->nloops_max = 1; w->tryfail_pct = 18;
	} else if (!strcmp(prop, "C04")) {
		w->ntimer = 6; w->nfd = 3; w->w_work = 10; w->w_io = 25; w->nloops_max = 1; w->eintr_pct = 30;
	} else if (!strcmp(prop, "C06")) {
		w->ntask = 6; w->nfd = 2; w->ntimer = 2; w->w_reg = 40; w->reuse_pct = 60; w->nloops_max = 1;
		w->w_quit = 6; w->cycles_pct = 35; w->w_work = 8;
	} else if (!strcmp(prop, "C07")) {
		w->w_quit = 8; w->emfile_pct = 25; w->tryfail_pct = 25; w->cycles_pct = 25; w->w_unreg = 35;
	} else if (!strcmp(prop, "C18")) {
		w->cycles_pct = 60; w->nloops_max = 3;
	} else if (!strcmp(prop, "C08")) {
		w->nloops_max = 3; w->ndrv_max = 3; w->nevent = 5; w->nfd = 1; w->ntimer = 1; w->ntask = 1; w->nraw = 1;
		w->w_post = 45;
	} else if (!strcmp(prop, "C09")) {
		w->nloops_max = 2; w->ndrv_max = 3; w->nraw = 4; w->nevent = 1; w->nfd = 1; w->ntimer = 1; w->ntask = 1;
		w->w_post = 45; w->faults_pct = 35; w->w_quit = 5;
	} else if (!strcmp(prop, "C15")) {
		w->faults_pct = 0; w->eintr_pct = 0;	/* added by the enumerator */
	}
}

static int objs_of(int thr, int kind, int *out)
{
	int i, n = 0;
	for (i = 0; i < G->nobj; i++)
		if (G->obj[i].kind == kind && (thr < 0 || G->obj[i].owner == thr))
			out[n++] = i;
	return n;
}

static void gen_action(const struct zoo_w *w, int ctx, int ctxid, int when, int thr, int self)
{
	int tot = w->w_unreg + w->w_reg + w->w_seth + w->w_post + w->w_io + w->w_quit + w->w_work + w->w_close + w->w_cookie;
	int r = R(tot), list[MAXOBJ], n, k;
	static const int kinds[] = { K_FD, K_TIMER, K_TASK, K_EVENT, K_RAW };

	if ((r -= w->w_unreg) < 0) {
		if (w->nfd >= 6 && P(30)) {
			/* "reconnect": another descriptor object of this thread is unregistered, what its peer had
			 * sent is thrown away, and the same structure is registered again as it is */
			n = objs_of(thr, K_FD, list);
			if (n) {
				int x = list[R(n)];
				add_op(ctx, ctxid, when, OP_UNREG, x, 1, 0, 0);
				add_op(ctx, ctxid, when, OP_CONSUME, G->obj[x].p[0], G->obj[x].p[1], 65536, 0);
				add_op(ctx, ctxid, when, OP_REG, x, 0, 0, 0);
				if (P(60))	/* and now waits to be able to write to the new peer */
					add_op(ctx, ctxid, when, OP_SETH, x, 1, 1, 0);
				return;
			}
		}
		if (self >= 0 && P(35)) {
			add_op(ctx, ctxid, when, OP_UNREG, self, P(15), 0, 0);
			return;
		}
		k = kinds[R(5)];
		n = objs_of(thr, k, list);
		if (n)
			add_op(ctx, ctxid, when, OP_UNREG, list[R(n)], P(15), 0, 0);
		return;
	}
	if ((r -= w->w_reg) < 0) {
		int target;
		if (self >= 0 && P(40) && G->obj[self].kind != K_CHAN)
			target = self;
		else {
			k = kinds[R(5)];
			n = objs_of(thr, k, list);
			if (!n)
				return;
			target = list[R(n)];
		}
		switch (G->obj[target].kind) {
		case K_TIMER:
			add_op(ctx, ctxid, when, OP_REG, target, R(100) < 60 ? 0 : R(100) < 50 ? 1 : R(100) < 50 ? 3 : 2,
			       P(8) ? (P(50) ? 0 : 1) : pick64(deltas, NDELTAS), 0);
			break;
		case K_FD:
			add_op(ctx, ctxid, when, OP_REG, target, P(25), P(30), P(50) ? 1 + R(27) : 0);
			break;
		default:
			add_op(ctx, ctxid, when, OP_REG, target, 0, P(30), 0);
		}
		return;
	}
	if ((r -= w->w_seth) < 0) {
		n = objs_of(thr, K_FD, list);
		if (!n)
			return;
		k = (self >= 0 && G->obj[self].kind == K_FD && P(50)) ? self : list[R(n)];
		add_op(ctx, ctxid, when, OP_SETH, k, R(3), R(3), 0);
		if (P(30))	/* clear + set between two polls, or set/clear/set of different bands */
			add_op(ctx, ctxid, when, OP_SETH, k, R(3), R(3), 0);
		return;
	}
	if ((r -= w->w_post) < 0) {
		n = objs_of(P(65) ? thr : -1, P(60) ? K_EVENT : K_RAW, list);
		if (n)
			add_op(ctx, ctxid, when, OP_POST, list[R(n)], 0, 0, 0);
		return;
	}
	if ((r -= w->w_io) < 0) {
		n = objs_of(-1, K_CHAN, list);
		if (!n)
			return;
		k = list[R(n)];
		if (self >= 0 && G->obj[self].kind == K_FD && P(70)) {
			/* the canonical handler: consume from / produce to the own descriptor */
			add_op(ctx, ctxid, when, P(50) ? OP_CONSUME : OP_PRODUCE, G->obj[self].p[0], G->obj[self].p[1],
			       P(50) ? 65536 : 1 + R(200), 0);
			return;
		}
		add_op(ctx, ctxid, when, P(50) ? OP_CONSUME : OP_PRODUCE, k, R(2), P(30) ? 65536 : 1 + R(5000), 0);
		return;
	}
	if ((r -= w->w_quit) < 0) {
		add_op(ctx, ctxid, when, OP_QUIT, 0, 0, 0, 0);
		return;
	}
	if ((r -= w->w_work) < 0) {
		add_op(ctx, ctxid, when, OP_WORK, 0, pick64(deltas, NDELTAS), 0, 0);
		if (P(50))
			add_op(ctx, ctxid, when, OP_INVAL, 0, 0, 0, 0);
		return;
	}
	if ((r -= w->w_close) < 0) {
		n = objs_of(-1, K_CHAN, list);
		if (!n)
			return;
		k = list[R(n)];
		if (P(60))
			add_op(ctx, ctxid, when, OP_CLOSE, k, R(2), 0, 0);
		else
			add_op(ctx, ctxid, when, OP_SHUTDOWN, k, R(2), R(3), 0);
		return;
	}
	n = objs_of(thr, K_FD, list);
	if (n)
		add_op(ctx, ctxid, when, OP_COOKIE, list[R(n)], 0, 0, 0);
}

static void gen_zoo(const char *prop, int tier)
{
	struct zoo_w w;
	int nloops, ndrv, t, i, nchan, chans[16], list[MAXOBJ], n;
	int big = tier > 0;

	zoo_weights(&w, prop);
	nloops = 1 + (w.nloops_max > 1 && P(35) ? R(w.nloops_max) : 0);
	ndrv = P(85) ? 1 + R(w.ndrv_max) : 0;
	if (!strcmp(prop, "C08") || !strcmp(prop, "C09")) {
		if (ndrv == 0)
			ndrv = 1;
	}
	gen_common_cfg(nloops + ndrv);
	G->nthr = nloops + ndrv;
	for (t = 0; t < nloops; t++) {
		struct pthr *pt = &G->thr[t];
		pt->kind = 'L';
		pt->cycles = P(w.cycles_pct) ? 2 + R(2) : 1;
		pt->exitmode = P(25);
		pt->deinit = !P(20);
		pt->td = !P(18);
	}
	for (; t < G->nthr; t++) {
		G->thr[t].kind = 'D';
		G->thr[t].cycles = 1;
	}

	nchan = 1 + R(big ? 6 : 4);
	for (i = 0; i < nchan; i++) {
		int r = R(100);
		chans[i] = add_obj(K_CHAN, -1);
		G->obj[chans[i]].p[0] = r < 45 ? 0 : r < 80 ? 1 : 2;
		if (G->obj[chans[i]].p[0] == 0 && P(25))
			G->obj[chans[i]].p[1] = 4096;
	}
	if (P(w.tryfail_pct)) {
		chans[nchan] = add_obj(K_CHAN, -1);
		G->obj[chans[nchan]].p[0] = P(50) ? 3 : 4;
		nchan++;
	}

	for (t = 0; t < nloops; t++) {
		int nfd = R(w.nfd + 1) + (big ? R(w.nfd + 1) : 0), ntm = R(w.ntimer + 1) + (big ? R(w.ntimer + 1) : 0);
		int ntk = R(w.ntask + 1), nev = R(w.nevent + 1), nrw = R(w.nraw + 1);
		if (nfd + ntm + ntk + nev + nrw == 0)
			ntm = 1;
		for (i = 0; i < nfd; i++) {
			int o = add_obj(K_FD, t), c = chans[R(nchan)];
			if (o < 0) break;
			G->obj[o].p[0] = c;
			G->obj[o].p[1] = G->obj[c].p[0] >= 2 ? 0 : R(2);
			G->obj[o].p[2] = P(70) ? 1 + R(2) : 0;
			G->obj[o].p[3] = P(30) ? 1 + R(2) : 0;
			G->obj[o].p[4] = P(30) ? 1 + R(2) : 0;
			G->obj[o].p[5] = P(w.reuse_pct);
			if (G->obj[c].p[0] >= 3) {
				/* a fall-back descriptor for the "fix ->fd and register again" pattern */
				int alt = chans[R(nchan)];
				if (G->obj[alt].p[0] < 3) {
					G->obj[o].p[6] = alt + 1;
					G->obj[o].p[7] = R(2);
					G->obj[o].p[5] = P(70);
				}
			}
		}
		for (i = 0; i < ntm; i++) {
			int o = add_obj(K_TIMER, t);
			if (o < 0) break;
			G->obj[o].p[0] = P(w.reuse_pct);
		}
		for (i = 0; i < ntk; i++) {
			int o = add_obj(K_TASK, t);
			if (o < 0) break;
			G->obj[o].p[0] = P(w.reuse_pct);
		}
		for (i = 0; i < nev; i++) {
			int o = add_obj(K_EVENT, t);
			if (o < 0) break;
			G->obj[o].p[0] = P(60);
		}
		for (i = 0; i < nrw; i++) {
			int o = add_obj(K_RAW, t);
			if (o < 0) break;
			G->obj[o].p[0] = P(60);
			if (!strcmp(prop, "C09") && G->obj[o].p[0] && P(45))
				G->obj[o].p[1] = P(50) ? 1 /* SIGHUP */ : 2 /* SIGINT */;
		}
	}

	/* set-up: make some channels ready first, register most objects, a few posts */
	for (t = 0; t < nloops; t++) {
		static const int kinds[] = { K_FD, K_TIMER, K_TASK, K_EVENT, K_RAW };
		int k;
		for (i = 0; i < nchan; i++)
			if (P(25))
				add_op(CTX_SETUP, t, 0, OP_PRODUCE, chans[i], R(2), 1 + R(300), 0);
		for (k = 0; k < 5; k++) {
			n = objs_of(t, kinds[k], list);
			for (i = 0; i < n; i++) {
				int pinned = (kinds[k] == K_EVENT || kinds[k] == K_RAW) && G->obj[list[i]].p[0];
				if (!pinned && !P(70))
					continue;
				if (kinds[k] == K_TIMER)
					add_op(CTX_SETUP, t, 0, OP_REG, list[i], R(100) < 60 ? 0 : R(100) < 50 ? 1 : R(100) < 50 ? 3 : 2,
					       P(8) ? (P(50) ? 0 : 1) : pick64(deltas, NDELTAS), 0);
				else if (kinds[k] == K_FD)
					add_op(CTX_SETUP, t, 0, OP_REG, list[i], P(25), 0, 0);
				else
					add_op(CTX_SETUP, t, 0, OP_REG, list[i], 0, 0, 0);
			}
		}
		n = R(4);
		while (n-- > 0)
			gen_action(&w, CTX_SETUP, t, 0, t, -1);
	}

	/* callback action tables */
	for (i = 0; i < G->nobj; i++) {
		int k = G->obj[i].kind, na;
		if (k == K_CHAN)
			continue;
		na = R(w.acts_max + 1);
		if (k == K_FD && P(75)) {
			/* the usual input handler drains its descriptor */
			add_op(CTX_CB, i, 0, OP_CONSUME, G->obj[i].p[0], G->obj[i].p[1], P(70) ? 65536 : 1 + R(64), 0);
		}
		while (na-- > 0) {
			int when = P(30) ? 0 : 1 + R(4);
			gen_action(&w, CTX_CB, i, when, G->obj[i].owner, i);
		}
	}

	/* drivers: the environment */
	for (t = nloops; t < G->nthr; t++) {
		int len = 3 + R(big ? 40 : 18);
		while (len-- > 0) {
			int r = R(100);
			if (r < 30) {
				add_op(CTX_DRV, t, 0, OP_SLEEP, 0, pick64(deltas, NDELTAS), 0, 0);
			} else if (r < 60) {
				add_op(CTX_DRV, t, 0, OP_PRODUCE, chans[R(nchan)], R(2), P(30) ? 65536 : 1 + R(5000), 0);
			} else if (r < 72) {
				add_op(CTX_DRV, t, 0, OP_CONSUME, chans[R(nchan)], R(2), P(30) ? 65536 : 1 + R(5000), 0);
			} else if (r < 90) {
				int kk = P(60) ? K_EVENT : K_RAW;
				if (!strcmp(prop, "C09"))
					kk = P(85) ? K_RAW : K_EVENT;
				n = objs_of(-1, kk, list);
				if (n && !strcmp(prop, "C09") && P(25))
					add_op(CTX_DRV, t, 0, OP_RAISE, 1 + R(2), P(60) ? 0 : 1 + R(G->nthr), 0, 0);
				else if (n && !strcmp(prop, "C09") && P(6))
					add_op(CTX_DRV, t, 0, OP_RFORK, list[R(n)], 1, 0, 0);
				else if (n && !strcmp(prop, "C09") && P(18))
					add_op(CTX_DRV, t, 0, OP_BURST, list[R(n)],
					       P(35) ? 1024 * (int64_t)(1 + R(P(80) ? 4 : big ? 66 : 8)) + (P(70) ? 0 : R(3) - 1) :	/* buffer-size boundaries */
					       P(75) ? 2 + R(300) : (big ? 4000 + R(66000) : 4000 + R(5000)), 0, 0);
				else if (n)
					add_op(CTX_DRV, t, 0, OP_POST, list[R(n)], 0, 0, 0);
			} else if (r < 94) {
				add_op(CTX_DRV, t, 0, OP_CLOSE, chans[R(nchan)], R(2), 0, 0);
			} else if (r < 97) {
				add_op(CTX_DRV, t, 0, OP_SHUTDOWN, chans[R(nchan)], R(2), R(3), 0);
			} else {
				add_op(CTX_DRV, t, 0, OP_YIELD, 0, 0, 0, 0);
			}
		}
	}

	if (!strcmp(prop, "C09")) {
		G->cfg.max_steps = 1200000;
		if (P(40))
			G->cfg.pipe_sz = 4096;
	}
	/* the repeated-deadline kernel-timer optimisation: many wake-ups of loop 0 while one timer stays the
	 * earliest (>= 5 in a row arms the timerfd), then the deadline moves earlier / later / away */
	if ((!strcmp(prop, "C04") || !strcmp(prop, "C07") || !strcmp(prop, "C15") || !strcmp(prop, "C06")) && ndrv > 0 && P(!strcmp(prop, "C15") ? 60 : 30)) {
		int ch = add_obj(K_CHAN, -1), f = add_obj(K_FD, 0), t1 = add_obj(K_TIMER, 0), t2 = add_obj(K_TIMER, 0), drv = nloops;
		int64_t D = (int64_t[]){ 50000000, 400000000, 2000000000, 10000000000LL }[R(4)], s = D / (12 + R(20));
		int k = 6 + R(5), n = k + 2 + R(8), variant = !strcmp(prop, "C06") ? 5 : R(6), j, ch2 = -1, f2 = -1, t3 = -1;
		if (ch >= 0 && f >= 0 && t1 >= 0 && t2 >= 0) {
			G->obj[f].p[0] = ch; G->obj[f].p[1] = 0; G->obj[f].p[2] = 1;
			if (P(70))
				G->method_excl = 0;
			add_op(CTX_SETUP, 0, 0, OP_REG, f, 0, 0, 0);
			add_op(CTX_SETUP, 0, 0, OP_REG, t1, 0, D, 0);
			add_op(CTX_CB, f, 0, OP_CONSUME, ch, 0, 65536, 0);
			switch (variant) {
			case 0:	/* a nearer timer appears */
				add_op(CTX_CB, f, k, OP_REG, t2, 0, s / 2 + 1, 0);
				break;
			case 1:	/* the earliest timer goes away, a later one remains */
				add_op(CTX_SETUP, 0, 0, OP_REG, t2, 0, 3 * D, 0);
				add_op(CTX_CB, f, k, OP_UNREG, t1, 0, 0, 0);
				break;
			case 2:	/* no timer remains while the descriptor keeps the loop alive; a new one comes later */
				add_op(CTX_CB, f, k, OP_UNREG, t1, 0, 0, 0);
				add_op(CTX_CB, f, n + 1, OP_REG, t2, 0, pick64(deltas, NDELTAS), 0);
				break;
			case 3:	/* re-armed later from its own handler */
				add_op(CTX_CB, t1, 1, OP_REG, t1, 0, D / 3 + 1, 0);
				break;
			case 5: {
				/* a task that keeps re-registering itself, and takes its time, across the expiry of the
				 * timer the kernel timer is armed for; the timer re-arms itself and must go on firing
				 * after the burst */
				int tk = add_obj(K_TASK, 0);
				if (tk >= 0) {
					add_op(CTX_CB, f, k, OP_REG, tk, 0, 0, 0);
					add_op(CTX_CB, tk, 0, OP_WORK, 0, D / (6 + R(10)) + 1, 0, 0);
					add_op(CTX_CB, tk, 0, OP_REG, tk, 0, 0, 0);
				}
				add_op(CTX_CB, t1, 0, OP_REG, t1, 0, D / 3 + 1, 0);
				break;
			}
			default:
				add_op(CTX_CB, f, k, OP_UNREG, t1, 0, 0, 0);
				add_op(CTX_CB, f, k, OP_REG, t1, 0, D / 2, 0);
				break;
			}
			if (nloops >= 2 && P(50)) {
				/* the same repeated deadline in a second loop thread: two threads each create (and
				 * arm) a kernel timer of their own, so "timerfd_create fails from its k-th call" can
				 * strike one thread while the other already lives with an armed timer */
				ch2 = add_obj(K_CHAN, -1);
				f2 = add_obj(K_FD, 1);
				t3 = add_obj(K_TIMER, 1);
				if (ch2 >= 0 && f2 >= 0 && t3 >= 0) {
					G->obj[f2].p[0] = ch2; G->obj[f2].p[1] = 0; G->obj[f2].p[2] = 1;
					add_op(CTX_SETUP, 1, 0, OP_REG, f2, 0, 0, 0);
					add_op(CTX_SETUP, 1, 0, OP_REG, t3, 0, D + D / 7, 0);
					add_op(CTX_CB, f2, 0, OP_CONSUME, ch2, 0, 65536, 0);
				} else
					ch2 = -1;
			}
			for (j = 0; j < n; j++) {
				add_op(CTX_DRV, drv, 0, OP_PRODUCE, ch, 1, 1 + R(100), 0);
				if (ch2 >= 0)
					add_op(CTX_DRV, drv, 0, OP_PRODUCE, ch2, 1, 1 + R(100), 0);
				add_op(CTX_DRV, drv, 0, OP_SLEEP, 0, s, 0, 0);
			}
			if (variant == 2) {
				/* keep the loop running past the old expiry, then one more wake-up */
				add_op(CTX_DRV, drv, 0, OP_SLEEP, 0, D + D / 4, 0, 0);
				add_op(CTX_DRV, drv, 0, OP_PRODUCE, ch, 1, 7, 0);
				add_op(CTX_DRV, drv, 0, OP_SLEEP, 0, s, 0, 0);
				add_op(CTX_DRV, drv, 0, OP_PRODUCE, ch, 1, 7, 0);
			}
		}
	}
	gen_absent_facilities(w.faults_pct);
	gen_eintr(nloops, w.eintr_pct);
	if (P(w.faults_pct))
		add_fault(FS_TIMERFD_CREATE, -1, 1, 1, ENOSYS, 0, 0);
	if (P(w.emfile_pct)) {
		/* only on sites whose callers report the failure (the pipe() inside
		 * iv_fd_epoll_create_active_fd answers with iv_fatal by design) */
		if (P(50) || G->method_excl < 3)
			add_fault(FS_EVENTFD2, -1, 1 + R(8), 0, EMFILE, 0, 0);
		else {
			add_fault(FS_EVENTFD2, -1, 1, 1, ENOSYS, 0, 0);
			add_fault(FS_EVENTFD, -1, 1, 1, ENOSYS, 0, 0);
			add_fault(FS_PIPE, -1, 1 + R(6), 0, EMFILE, 0, 0);
		}
	}
	if (P(w.emfile_pct / 2))
		add_fault(FS_KICK_ADD, -1, 1, 1, ENOSPC, 0, 0);
}

int gen_ext(struct plan *p, const char *scenario, const char *prop, int tier);

/* in some plans one timer registration becomes a parked timer (an expiry centuries away): drawn after
 * everything else */
static void park_timers(int pct)
{
	int i, cand[64], n = 0;
	if (!P(pct))
		return;
	for (i = 0; i < G->nops && n < 64; i++)
		if (G->ops[i].op == OP_REG && G->ops[i].d >= 0 && G->ops[i].d < G->nobj && G->obj[G->ops[i].d].kind == K_TIMER)
			cand[n++] = i;
	if (n) {
		i = cand[R(n)];
		G->ops[i].a = 4;
		G->ops[i].b = R(3000);
	}
}

int gen_plan(struct plan *p, const char *scenario, const char *prop, uint64_t seed, int tier)
{
	int r;
	plan_init(p);
	G = p;
	S = seed * 0x2545F4914F6CDD1DULL + 0x1234567;
	snprintf(p->scenario, sizeof(p->scenario), "%s", scenario);
	snprintf(p->prop, sizeof(p->prop), "%s", prop);
	p->seed = seed;
	p->tier = tier;
	if (!strcmp(scenario, "zoo")) {
		gen_zoo(prop, tier);
		park_timers(!strcmp(prop, "C04") || !strcmp(prop, "C05") ? 14 : 4);
		r = 0;
	} else
		r = gen_ext(p, scenario, prop, tier);
	if (r == 0 && !strcmp(scenario, "zoo")) {
		/* some events that other threads post to are one-shot: their handler unregisters (and frees)
		 * them the first time it runs */
		int i;
		for (i = 0; i < p->nobj; i++)
			if (p->obj[i].kind == K_EVENT && p->obj[i].p[0] == 1 && P(25)) {
				p->obj[i].p[0] = 2;
				add_op(CTX_CB, i, 1, OP_UNREG, i, 0, 0, 0);
			}
	}
	if (r == 0) {
		/* task structures initialised by the first thread on behalf of another loop thread */
		int i;
		for (i = 0; i < p->nobj; i++)
			if (p->obj[i].kind == K_TASK && p->obj[i].owner > 0 && p->obj[i].owner < p->nthr &&
			    p->thr[p->obj[i].owner].kind == 'L' && P(20))
				p->obj[i].p[3] = 1;
	}
	if (r == 0) {
		/* an application that calls iv_quit and later simply runs the loop again, with everything that is
		 * registered left in place (drawn after everything else) */
		int t;
		for (t = 0; t < p->nthr; t++)
			if (p->thr[t].kind == 'L' && P(25))
				p->thr[t].reenter = 1 + R(2);
	}
	if (r == 0 && P(7)) {
		/* an interrupted or spuriously empty read of one of the library's own wake-up descriptors
		 * (drawn after everything else) */
		int t, nl = 0;
		for (t = 0; t < p->nthr; t++)
			if (p->thr[t].kind == 'L')
				nl++;
		if (nl > 0)
			add_fault(FS_LIBREAD, 1 + R(nl), 1 + R(6), 0, P(50) ? EINTR : EAGAIN, 0, 0);
	}
	return r;
}

/* helpers exported for the other generators */
int gx_R(int n) { return R(n); }
int gx_P(int pct) { return P(pct); }
int gx_add_obj(int kind, int owner) { return add_obj(kind, owner); }
struct pop *gx_add_op(int ctx, int ctxid, int when, int op, int64_t d, int64_t a, int64_t b, int64_t c) { return add_op(ctx, ctxid, when, op, d, a, b, c); }
void gx_add_fault(int site, int tid, int k, int sticky, int err, int mode, int64_t param) { add_fault(site, tid, k, sticky, err, mode, param); }
void gx_common_cfg(int n) { gen_common_cfg(n); }
void gx_absent(int pct) { gen_absent_facilities(pct); }
void gx_eintr(int nloops, int pct) { gen_eintr(nloops, pct); }
/* planned failures of registration calls (fork, pipe, pthread_create, inotify_init, inotify_add_watch):
 * attached to the object, hitting its first attempt; drawn last so that the rest of the plan does not depend on them */
void gx_regfail(void)
{
	int i;
	for (i = 0; i < G->nobj; i++) {
		struct pobj *po = &G->obj[i];
		switch (po->kind) {
		case K_WAIT:
			if (po->p[0] == 0 && P(6))
				po->p[7] = 1;
			break;
		case K_POPEN:
			if (P(8))
				po->p[7] = 1 + R(2);
			break;
		case K_IVTHREAD:
			if (P(8))
				po->p[7] = 1;
			break;
		case K_INOT:
			if (P(4))
				po->p[7] = 1;
			break;
		case K_WATCH:
			if (P(6))
				po->p[7] = 1;
			break;
		}
	}
}
int64_t gx_delta(void) { return pick64(deltas, NDELTAS); }
uint64_t gx_u64(void) { return sm64(&S); }
