/* ext.h -- second-level extension points (ext2.c): children, popen, pools, threads, pump, inotify */
#ifndef EXT_H
#define EXT_H
#include "engine.h"
int ext2_live(int id);
int ext2_maybe_live(int id);
int ext2_reg(struct rthr *th, int id, const struct pop *op);
int ext2_unreg(struct rthr *th, int id, int keep);
int ext2_op(struct rthr *th, const struct pop *op);
void ext2_cb(struct rthr *th, int id, int kind, int band, int64_t x1, int64_t x2);
void ext2_cb_exit(struct rthr *th, int id, int kind);
int ext2_foreign_thread_ok(int id, int kind);
int ext2_nesting_ok(int kind, int outer_kind);
int ext2_stale_ok(int id, int kind, int band);
void ext2_wait_block(struct rthr *th);
void ext2_time_advance(int64_t from, int64_t to);
const char *ext2_uaf_prop(void);
void ext2_teardown(struct rthr *th);
void ext2_post_main(struct rthr *th);
void ext2_blame_no_return(struct rthr *th);
void ext2_install_obs(void);
void ext2_run_begin(void);
void ext2_obligations(void);
void ext2_end_of_run(int all_exited);
void ext2_on_thread_exit(int tid);
/* ext3.c: pump, inotify */
int ext3_live(int id);
int ext3_reg(struct rthr *th, int id, const struct pop *op);
int ext3_unreg(struct rthr *th, int id, int keep);
int ext3_op(struct rthr *th, const struct pop *op);
void ext3_cb(struct rthr *th, int id, int kind, int band, int64_t x1, int64_t x2);
void ext3_cb_exit(struct rthr *th, int id, int kind);
int ext3_foreign_thread_ok(int id, int kind);
int ext3_nesting_ok(int kind, int outer_kind);
int ext3_stale_ok(int id, int kind, int band);
void ext3_wait_block(struct rthr *th);
const char *ext3_uaf_prop(void);
void ext3_teardown(struct rthr *th);
void ext3_post_main(struct rthr *th);
void ext3_install_obs(void);
void ext3_run_begin(void);
void ext3_obligations(void);
void ext3_end_of_run(int all_exited);
void ext3_wait_enter(struct rthr *th);
void ext3_time_advance(int64_t to);
/* ext4.c: pump, inotify */
int ext4_live(int id);
int ext4_reg(struct rthr *th, int id, const struct pop *op);
int ext4_unreg(struct rthr *th, int id, int keep);
int ext4_op(struct rthr *th, const struct pop *op);
void ext4_cb(struct rthr *th, int id, int kind, int band, int64_t x1, int64_t x2);
void ext4_cb_exit(struct rthr *th, int id, int kind);
int ext4_foreign_thread_ok(int id, int kind);
int ext4_nesting_ok(int kind, int outer_kind);
int ext4_stale_ok(int id, int kind, int band);
void ext4_wait_block(struct rthr *th);
void ext4_teardown(struct rthr *th);
void ext4_post_main(struct rthr *th);
void ext4_install_obs(void);
void ext4_run_begin(void);
void ext4_obligations(void);
void ext4_end_of_run(int all_exited);
void ext4_wait_enter(struct rthr *th);
int ext4_quiesce_progress(void);
int ext4_pump_kick(struct rthr *th, int id);
void ext4_stream_fill(int chan, unsigned char *buf, long n);
void ext4_stream_written(int chan, long n);
void ext4_stream_verify(int chan, const unsigned char *buf, long n);
void ext4_chan_closed(int chan, int end, int shut_wr_only);
#endif
