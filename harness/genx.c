/* genx.c -- generators for the scenarios beyond the basic zoo */
#define _GNU_SOURCE
#include <errno.h>
#include <signal.h>
#include <string.h>
#include "hz.h"

int gx_R(int n);
int gx_P(int pct);
int gx_add_obj(int kind, int owner);
struct pop *gx_add_op(int ctx, int ctxid, int when, int op, int64_t d, int64_t a, int64_t b, int64_t c);
void gx_add_fault(int site, int tid, int k, int sticky, int err, int mode, int64_t param);
void gx_common_cfg(int n);
void gx_absent(int pct);
void gx_eintr(int nloops, int pct);
int64_t gx_delta(void);
uint64_t gx_u64(void);

#define R gx_R
#define P gx_P
static struct plan *G;

static void mk_threads(int nloops, int ndrv, int cycles_pct)
{
	int t;
	G->nthr = nloops + ndrv;
	for (t = 0; t < nloops; t++) {
		struct pthr *pt = &G->thr[t];
		pt->kind = 'L';
		pt->cycles = P(cycles_pct) ? 2 : 1;
		pt->exitmode = P(25);
		pt->deinit = !P(20);
		pt->td = 1;
	}
	for (; t < G->nthr; t++) {
		G->thr[t].kind = 'D';
		G->thr[t].cycles = 1;
	}
}

/* ---- C10: iv_signal ---------------------------------------------------------------- */
static void gen_sig(int tier)
{
	int nloops = 1 + R(3), ndrv = 1 + R(2), t, i, sigs[64], nsig = 0, big = tier > 0;
	static const int signums[2] = { SIGUSR1, SIGUSR2 };

	gx_common_cfg(nloops + ndrv);
	mk_threads(nloops, ndrv, 10);
	if (P(20))
		G->thr[nloops].sigmask_all = 1;	/* a driver that blocks every signal */
	for (t = 0; t < nloops; t++) {
		int n = 1 + R(big ? 5 : 3), tm;
		for (i = 0; i < n && nsig < 64; i++) {
			int o = gx_add_obj(K_SIGNAL, t), r = R(100);
			G->obj[o].p[0] = signums[P(75) ? 0 : 1];
			G->obj[o].p[1] = r < 40 ? 0 : r < 65 ? 1 : r < 85 ? 2 : 3;
			sigs[nsig++] = o;
			if (P(80))
				gx_add_op(CTX_SETUP, t, 0, OP_REG, o, 0, 0, 0);
		}
		/* something else in the loop, so that it iterates for other reasons too */
		tm = gx_add_obj(K_TIMER, t);
		gx_add_op(CTX_SETUP, t, 0, OP_REG, tm, 0, gx_delta(), 0);
		if (P(50))
			gx_add_op(CTX_CB, tm, 0, OP_REG, tm, 0, gx_delta(), 0);
		if (P(40))
			gx_add_op(CTX_CB, tm, 1 + R(3), OP_RAISE, signums[R(2)], P(50) ? 0 : 1 + R(G->nthr), 0, 0);
	}
	for (i = 0; i < nsig; i++) {
		int o = sigs[i], na = R(4), owner = G->obj[o].owner;
		while (na-- > 0) {
			int when = P(30) ? 0 : 1 + R(3), r = R(100), j, cand[64], nc = 0;
			for (j = 0; j < nsig; j++)
				if (G->obj[sigs[j]].owner == owner)
					cand[nc++] = sigs[j];
			if (r < 35)
				gx_add_op(CTX_CB, o, when, OP_UNREG, P(50) ? o : cand[R(nc)], 0, 0, 0);
			else if (r < 60)
				gx_add_op(CTX_CB, o, when, OP_REG, cand[R(nc)], 0, 0, 0);
			else if (r < 85)
				gx_add_op(CTX_CB, o, when, OP_RAISE, signums[R(2)], P(50) ? 0 : 1 + R(G->nthr), 0, 0);
			else if (r < 93)
				gx_add_op(CTX_CB, o, when, OP_WORK, 0, gx_delta(), 0, 0);
			else
				gx_add_op(CTX_CB, o, when, OP_YIELD, 0, 0, 0, 0);
		}
	}
	for (t = nloops; t < G->nthr; t++) {
		int len = 3 + R(big ? 30 : 14);
		while (len-- > 0) {
			int r = R(100);
			if (r < 30)
				gx_add_op(CTX_DRV, t, 0, OP_SLEEP, 0, gx_delta(), 0, 0);
			else if (r < 86)
				gx_add_op(CTX_DRV, t, 0, OP_RAISE, signums[P(75) ? 0 : 1], P(55) ? 0 : 1 + R(G->nthr), 0, 0);
			else if (r < 90)
				gx_add_op(CTX_DRV, t, 0, OP_RFORK, signums[P(75) ? 0 : 1], 0, 0, 0);
			else
				gx_add_op(CTX_DRV, t, 0, OP_YIELD, 0, 0, 0, 0);
		}
	}
	gx_absent(10);
	gx_eintr(nloops, 10);
}

int gen_ext2(struct plan *p, const char *scenario, const char *prop, int tier);

int gen_ext(struct plan *p, const char *scenario, const char *prop, int tier)
{
	G = p;
	if (!strcmp(scenario, "sig")) {
		gen_sig(tier);
		return 0;
	}
	return gen_ext2(p, scenario, prop, tier);
}
