/* genx.c -- generators for the scenarios beyond the basic zoo */
#define _GNU_SOURCE
#include <string.h>
#include "hz.h"

int gen_ext(struct plan *p, const char *scenario, const char *prop, int tier)
{
	(void)p; (void)scenario; (void)prop; (void)tier;
	return -1;
}
