/* ext.c -- object kinds beyond fd/timer/task/event/raw (signals, children,
 * work pools, iv_thread, popen, pump, inotify) and their oracles. */
#define _GNU_SOURCE
#include <errno.h>
#include <inttypes.h>
#include <signal.h>
#include <stdlib.h>
#include <string.h>
#include <sys/wait.h>
#include <unistd.h>

#include <iv.h>
#include <iv_event.h>
#include <iv_event_raw.h>
#include <iv_signal.h>

#include "engine.h"
#include "ext.h"

/* =====================================================================================
 * C10: iv_signal
 * ===================================================================================== */
#define SX_INPROG	0	/* 1 register in progress, 2 unregister in progress */
#define SX_OWED		1	/* seq of the latest delivery that obliges this interest individually */
#define SX_WAKES	2	/* upper bound on wake-ups that may have reached it */
#define SX_ENTRYSEQ	3
#define SX_ENTRIES	4
#define SX_INHANDLER	5
#define SX_REL0		6	/* owner's spin-unlock count when the (un)registration call began */
#define SX_CONSUMED	7	/* wake-ups that a handler run has certainly used up (those seen before the owner's
				 * kernel wait that preceded the run returned); `posts` holds the count at that return */

#define NGROUP 256
static struct sgroup { int sig, scope, open, sole_excl; uint64_t seq; } sgroup[NGROUP];
static int nsgroup;
static long spin_releases[SIMK_MAXT];
/* a delivery whose handler has been entered but has not yet walked the process-wide tree */
static struct { int sig, stage; uint64_t seq; int snap_gen[MAXOBJ]; } pend_deliv[SIMK_MAXT];
static const int *walk_filter;	/* restricts sig_walk to interests whose generation matches */
static int pend_unreg[SIMK_MAXT];	/* interest obj + 1 whose unregister call has not yet entered its critical section */

static void h_signal(void *ck) { generic_cb(ck, K_SIGNAL, 0, 0, 0); }

/* Is interest i in its tree at this instant?  Registration inserts, and unregistration removes,
 * inside one critical section of the library's signal spinlock (the only spinlock it has); a
 * call in progress has taken effect iff its thread has left that critical section. */
static int sig_in_tree(int i)
{
	struct robj *o = &RO[i];
	int owner_sim = RT[PL->obj[i].owner].sim;
	int done = spin_releases[owner_sim] > o->xi[SX_REL0];
	if (o->xi[SX_INPROG] == 1)
		return done;
	if (o->xi[SX_INPROG] == 2)
		return !done;
	return o->registered;
}

static int sig_count(int sig, int *inprog)
{
	int i, n = 0;
	*inprog = 0;
	for (i = 0; i < PL->nobj; i++)
		if (PL->obj[i].kind == K_SIGNAL && PL->obj[i].p[0] == sig) {
			if (RO[i].xi[SX_INPROG])
				(*inprog)++;
			else if (RO[i].registered)
				n++;
		}
	return n;
}

static void check_disposition(int sig)
{
	int inprog, n = sig_count(sig, &inprog);
	if (inprog)
		return;
	if (n == 0 && simk_sigaction_query(sig) != 0)
		viol("C10.disposition", "signal %d: no interest is registered any more but the disposition was not restored to the default", sig);
	if (n > 0 && simk_sigaction_query(sig) != 2)
		viol("C10.disposition", "signal %d: %d interest(s) registered but the process disposition is not the library's handler", sig, n);
}

static int signal_reg(struct rthr *th, int id)
{
	struct robj *o = &RO[id];
	const struct pobj *po = &PL->obj[id];
	struct iv_signal *is;
	int ret;

	if (o->mem == NULL) {
		o->memsz = sizeof(struct iv_signal);
		o->mem = malloc(o->memsz);
		memset(o->mem, 0xA5, o->memsz);
	}
	is = o->mem;
	IV_SIGNAL_INIT(is);
	is->signum = (int)po->p[0];
	is->flags = (unsigned int)po->p[1];
	is->cookie = new_cookie(id);
	is->handler = h_signal;
	o->xi[SX_REL0] = spin_releases[th->sim];
	o->xi[SX_INPROG] = 1;
	o->xi[SX_OWED] = 0;
	o->xi[SX_WAKES] = 0;
	o->xi[SX_CONSUMED] = 0;
	o->posts = 0;
	o->xi[SX_ENTRYSEQ] = 0;
	o->xi[SX_ENTRIES] = 0;
	++SEQ;
	ret = iv_signal_register(is);
	o->xi[SX_INPROG] = 0;
	if (ret != 0) {
		obj_free_mem(id);
		return 1;
	}
	o->registered = 1;
	check_disposition((int)po->p[0]);
	return 1;
}

static int scope_of(int i)
{
	return (PL->obj[i].p[1] & IV_SIGNAL_FLAG_THIS_THREAD) ? PL->obj[i].owner : -1;
}

static int signal_unreg(struct rthr *th, int id)
{
	struct robj *o = &RO[id];
	const struct pobj *po = &PL->obj[id];
	int i, g;

	/* every other interest of the same signal and scope that is in the tree when this call's
	 * critical section runs may receive a hand-off from it (counted in obs_lock_event) */
	pend_unreg[th->sim] = id + 1;
	o->xi[SX_REL0] = spin_releases[th->sim];
	o->registered = 0;
	o->xi[SX_INPROG] = 2;
	iv_signal_unregister(o->mem);
	pend_unreg[th->sim] = 0;
	o->xi[SX_INPROG] = 0;
	o->gen++;
	obj_free_mem(id);
	/* a group obligation lapses when nobody of its signal and scope is left to hand it to */
	for (g = 0; g < nsgroup; g++) {
		int remain = 0;
		if (!sgroup[g].open || sgroup[g].sig != po->p[0] || sgroup[g].scope != scope_of(id))
			continue;
		for (i = 0; i < PL->nobj; i++)
			if (PL->obj[i].kind == K_SIGNAL && PL->obj[i].p[0] == po->p[0] && scope_of(i) == scope_of(id) && sig_in_tree(i))
				remain++;
		if (!remain)
			sgroup[g].open = 0;
		else if (po->p[1] & IV_SIGNAL_FLAG_EXCLUSIVE)
			PROBE[PR_SIG_HANDOFF]++;
	}
	check_disposition((int)po->p[0]);
	return 1;
}

/* the handler walks a tree now: scope >= 0 the receiving thread's own tree, -1 the process-wide one.
 * Returns the number of interests in that tree for the signal. */
static int sig_walk(int sig, int scope, uint64_t seq)
{
	int i, n_set = 0, n_excl = 0, set[MAXOBJ];

	for (i = 0; i < PL->nobj; i++) {
		if (PL->obj[i].kind != K_SIGNAL || PL->obj[i].p[0] != sig || scope_of(i) != scope || !sig_in_tree(i))
			continue;
		if (walk_filter && (RO[i].xi[SX_INPROG] || walk_filter[i] != RO[i].gen + 1))
			continue;
		set[n_set++] = i;
		if (PL->obj[i].p[1] & IV_SIGNAL_FLAG_EXCLUSIVE)
			n_excl++;
	}
	for (i = 0; i < n_set; i++) {
		RO[set[i]].xi[SX_WAKES]++;
		if (RO[set[i]].xi[SX_INHANDLER])
			PROBE[PR_SIG_DURING_HANDLER]++;
	}
	if (n_set > 0 && n_excl == 0) {
		for (i = 0; i < n_set; i++)
			RO[set[i]].xi[SX_OWED] = (int64_t)seq;
	} else if (n_set > 0 && nsgroup < NGROUP) {
		/* one exclusive interest of the set must run; a hand-off may move that to any remaining one */
		sgroup[nsgroup].sig = sig;
		sgroup[nsgroup].scope = scope;
		sgroup[nsgroup].seq = seq;
		sgroup[nsgroup].open = 1;
		/* with a single exclusive interest in the set it is certain which one was woken */
		sgroup[nsgroup].sole_excl = -1;
		if (n_excl == 1)
			for (i = 0; i < n_set; i++)
				if (PL->obj[set[i]].p[1] & IV_SIGNAL_FLAG_EXCLUSIVE)
					sgroup[nsgroup].sole_excl = set[i];
		nsgroup++;
	}
	return n_set;
}

/* simulator hook: a signal is about to be handled (phase 0), was handled (1), or met a
 * default (2) / ignore (3) disposition */
static void obs_sig_deliver(int tid, int sig, int phase)
{
	int rthread = sim2plan[tid];

	if (phase == 1) {
		if (pend_deliv[tid].stage == 1) {
			/* The handler returned without ever walking the process-wide interests (it never took
			 * the signal lock).  Whatever the implementation, an interest that stayed registered
			 * from before the handler began until after it returned is owed this delivery. */
			walk_filter = pend_deliv[tid].snap_gen;
			sig_walk(pend_deliv[tid].sig, -1, pend_deliv[tid].seq);
			walk_filter = NULL;
			PROBE[PR_SIG_NOWALK]++;
		}
		pend_deliv[tid].stage = 0;
		return;
	}
	if (phase >= 2) {
		int inprog, n = sig_count(sig, &inprog);
		if (n > 0 && !inprog)
			viol("C10.disposition", "signal %d arrived with %s disposition while %d interest(s) are registered", sig,
			     phase == 2 ? "the default" : "an ignoring", n);
		if (have_viol())
			finish(1);
		return;
	}
	++SEQ;
	if (rthread < 0 || !RT[rthread].inited)
		PROBE[PR_SIG_FOREIGN]++;
	/* the library's handler first looks at the receiving thread's own interests ... */
	if (rthread >= 0 && RT[rthread].inited && sig_walk(sig, rthread, SEQ) > 0) {
		pend_deliv[tid].stage = 2;
		return;
	}
	/* ... and otherwise walks the process-wide tree once it holds the signal spinlock */
	pend_deliv[tid].sig = sig;
	pend_deliv[tid].seq = SEQ;
	pend_deliv[tid].stage = 1;
	{
		int i;
		for (i = 0; i < PL->nobj; i++)
			pend_deliv[tid].snap_gen[i] = (PL->obj[i].kind == K_SIGNAL && RO[i].registered && !RO[i].xi[SX_INPROG]) ? RO[i].gen + 1 : 0;
	}
}

static void obs_lock_event(int tid, void *addr, int acquired, int spin)
{
	(void)addr;
	engine_lock_event(tid, acquired, spin);
	if (!spin)
		return;
	if (!acquired) {
		/* critical sections of the signal handler itself do not count */
		if (pend_deliv[tid].stage == 0)
			spin_releases[tid]++;
		return;
	}
	if (pend_deliv[tid].stage == 1) {
		pend_deliv[tid].stage = 2;
		sig_walk(pend_deliv[tid].sig, -1, pend_deliv[tid].seq);
	} else if (pend_deliv[tid].stage == 0 && pend_unreg[tid]) {
		int id = pend_unreg[tid] - 1, i, g;
		pend_unreg[tid] = 0;
		/* an exclusive interest hands on what it was woken for and has not run for; one that was never
		 * woken since its last run (or is not exclusive) has nothing to hand on */
		if ((PL->obj[id].p[1] & IV_SIGNAL_FLAG_EXCLUSIVE) && RO[id].xi[SX_WAKES] > RO[id].xi[SX_CONSUMED])
			for (i = 0; i < PL->nobj; i++)
				if (i != id && PL->obj[i].kind == K_SIGNAL && PL->obj[i].p[0] == PL->obj[id].p[0] &&
				    scope_of(i) == scope_of(id) && sig_in_tree(i))
					RO[i].xi[SX_WAKES]++;
		/* The interest being unregistered is known to hold an undelivered wake-up (it was the only
		 * exclusive one when the signal arrived and has not run since): the delivery is dispatched
		 * afresh over what remains in the tree at this instant, with the usual fan-out rule. */
		for (g = 0; g < nsgroup; g++) {
			int n_rem = 0, n_excl = 0, last_excl = -1;
			if (!sgroup[g].open || sgroup[g].sole_excl != id)
				continue;
			for (i = 0; i < PL->nobj; i++)
				if (i != id && PL->obj[i].kind == K_SIGNAL && PL->obj[i].p[0] == PL->obj[id].p[0] &&
				    scope_of(i) == scope_of(id) && sig_in_tree(i)) {
					n_rem++;
					if (PL->obj[i].p[1] & IV_SIGNAL_FLAG_EXCLUSIVE) {
						n_excl++;
						last_excl = i;
					}
				}
			if (n_rem > 0 && n_excl == 0) {
				for (i = 0; i < PL->nobj; i++)
					if (i != id && PL->obj[i].kind == K_SIGNAL && PL->obj[i].p[0] == PL->obj[id].p[0] &&
					    scope_of(i) == scope_of(id) && sig_in_tree(i) && RO[i].xi[SX_OWED] < (int64_t)sgroup[g].seq)
						RO[i].xi[SX_OWED] = (int64_t)sgroup[g].seq;
				sgroup[g].open = 0;
			} else {
				sgroup[g].sole_excl = n_excl == 1 ? last_excl : -1;
			}
		}
		/* Whatever this interest held of an undelivered wake-up can only be handed to what is in the
		 * tree at this instant.  If nothing of its signal and scope is, the obligation lapses here and
		 * now: an interest whose registration completes later (while this call is still on its way
		 * out) was never a candidate.  (Deciding this after the call returned raised a false alarm.) */
		for (g = 0; g < nsgroup; g++) {
			int n_rem = 0;
			if (!sgroup[g].open || sgroup[g].sig != PL->obj[id].p[0] || sgroup[g].scope != scope_of(id))
				continue;
			for (i = 0; i < PL->nobj; i++)
				if (i != id && PL->obj[i].kind == K_SIGNAL && PL->obj[i].p[0] == PL->obj[id].p[0] &&
				    scope_of(i) == scope_of(id) && sig_in_tree(i))
					n_rem++;
			if (n_rem == 0)
				sgroup[g].open = 0;
		}
	}
}

static void signal_cb(struct rthr *th, int id)
{
	struct robj *o = &RO[id];
	const struct pobj *po = &PL->obj[id];
	int g, scope = scope_of(id);

	(void)th;
	PROBE[PR_SIG_CB]++;
	if (o->posts > o->xi[SX_CONSUMED])
		o->xi[SX_CONSUMED] = o->posts;
	o->xi[SX_ENTRIES]++;
	o->xi[SX_ENTRYSEQ] = (int64_t)SEQ;
	if (o->xi[SX_ENTRIES] > o->xi[SX_WAKES])
		viol("C10.spurious", "signal interest obj %d (signal %d): handler invoked %" PRId64 " times but at most %" PRId64 " deliveries / hand-offs could have reached it", id, (int)po->p[0], o->xi[SX_ENTRIES], o->xi[SX_WAKES]);
	for (g = 0; g < nsgroup; g++)
		if (sgroup[g].open && sgroup[g].sig == po->p[0] && sgroup[g].scope == scope && sgroup[g].seq < SEQ)
			sgroup[g].open = 0;
}

static void signal_obligations(void)
{
	int i, g;
	for (i = 0; i < PL->nobj; i++) {
		struct robj *o = &RO[i];
		if (PL->obj[i].kind != K_SIGNAL || !o->registered)
			continue;
		if (!RT[PL->obj[i].owner].in_main)
			continue;
		if (o->xi[SX_OWED] > 0 && o->xi[SX_OWED] > o->xi[SX_ENTRYSEQ])
			viol("C10.lost", "quiescence: signal interest obj %d (signal %d, flags %d) was owed a handler invocation for the delivery at seq %" PRId64 " but was last entered at seq %" PRId64,
			     i, (int)PL->obj[i].p[0], (int)PL->obj[i].p[1], o->xi[SX_OWED], o->xi[SX_ENTRYSEQ]);
	}
	for (g = 0; g < nsgroup; g++) {
		int remain = 0;
		if (!sgroup[g].open)
			continue;
		for (i = 0; i < PL->nobj; i++)
			if (PL->obj[i].kind == K_SIGNAL && PL->obj[i].p[0] == sgroup[g].sig && RO[i].registered &&
			    scope_of(i) == sgroup[g].scope && RT[PL->obj[i].owner].in_main)
				remain++;
		if (remain)
			viol("C10.lost", "quiescence: the delivery of signal %d at seq %" PRIu64 " (scope %d) had to wake one exclusive interest (or be handed to a remaining one), but none of the %d remaining interest(s) ran after it",
			     sgroup[g].sig, sgroup[g].seq, sgroup[g].scope, remain);
	}
}

static int rfork_writes;
static void rfork_count_writes(int tid, int what, int fd, long a)
{
	(void)tid; (void)fd; (void)a;
	if (what == FDEV_WRITE)
		rfork_writes++;
}

/* ---- harness-installed signal handler: posts raw events from signal context (C09) ---- */
static void hsig(int sig)
{
	int i;
	for (i = 0; i < PL->nobj; i++)
		if (PL->obj[i].kind == K_RAW && PL->obj[i].p[1] == sig && PL->obj[i].p[0] && RO[i].registered) {
			struct pop op = { 0 };
			op.op = OP_POST;
			op.d = i;
			exec_op(cur_thr(), &op);
		}
}

/* =====================================================================================
 * dispatch
 * ===================================================================================== */
int ext_live(int id)
{
	switch (PL->obj[id].kind) {
	case K_SIGNAL:
		return RO[id].registered;
	}
	return ext2_live(id);
}

int ext_maybe_live(int id) { return ext2_maybe_live(id); }
/* library-internal iv_event posts (child reaper -> wait interest, workers -> pool owner, dying
 * threads -> creator) cannot be observed individually: report "maybe" whenever another thread
 * of the process is running library code that may post */
int ext_posts_in_flight(int owner_thread)
{
	int i, n = 0;
	for (i = 1; i < simk_nthreads(); i++)
		if (simk_lib_thread(i) && !simk_thread_exited(i))
			n++;
	for (i = 0; i < PL->nthr; i++)
		if (i != owner_thread && PL->thr[i].kind == 'L' && RT[i].inited && RT[i].in_wait_cb)
			n++;
	return n;
}

int ext_mem_idle(int id)
{
	/* work items that are still queued or running belong to the library */
	if (PL->obj[id].kind == K_ITEM)
		return RO[id].xi[0] == 0 || RO[id].xi[0] == 4;
	return 1;
}

int ext_reg(struct rthr *th, int id, const struct pop *op)
{
	switch (PL->obj[id].kind) {
	case K_SIGNAL:
		return signal_reg(th, id);
	}
	return ext2_reg(th, id, op);
}

int ext_unreg(struct rthr *th, int id, int keep)
{
	switch (PL->obj[id].kind) {
	case K_SIGNAL:
		return signal_unreg(th, id);
	}
	return ext2_unreg(th, id, keep);
}

int ext_op(struct rthr *th, const struct pop *op)
{
	switch (op->op) {
	case OP_RAISE:
		if (op->d < 1 || op->d > 64)
			return 0;
		simk_log(101, OP_RAISE, op->d * 16 + op->a);
		if (op->a <= 0 || op->a > PL->nthr)
			simk_raise_process((int)op->d);
		else
			simk_raise_thread(RT[op->a - 1].sim, (int)op->d);
		return 1;
	case OP_RFORK: {
		/* a really forked child of the run's process (the simulated world stands still meanwhile) */
		pid_t pid;
		int st = 0;
		if (op->a == 0) {
			/* C10: the child invokes the inherited signal handler; it must not wake the parent's interests */
			int sig = (int)op->d;
			void (*h)(int);
			if (sig < 1 || sig > 64 || simk_sigaction_query(sig) != 2)
				return 0;
			h = (void (*)(int))simk_sigaction_handler(sig);
			simk_log(101, OP_RFORK, sig);
			pid = simk_real_fork();
			if (pid == 0) {
				rfork_writes = 0;
				simk_obs.fd_event = rfork_count_writes;
				h(sig);
				_exit(rfork_writes > 0 ? 3 : 0);
			}
			if (pid < 0)
				return 0;
			while (waitpid(pid, &st, 0) < 0 && errno == EINTR)
				;
			if (WIFEXITED(st) && WEXITSTATUS(st) == 3)
				viol("C10.child", "a forked child that received signal %d ran the inherited handler and wrote to the parent's wake-up descriptors", sig);
			else if (!WIFEXITED(st) || WEXITSTATUS(st) != 0)
				viol("C10.child", "a forked child running the inherited handler for signal %d died (status 0x%x)", sig, st);
			PROBE[PR_SIG_HANDOFF + 0] += 0;
			return 1;
		} else {
			/* C09: the child posts a raw event of the parent */
			int id = (int)op->d;
			struct robj *o;
			if (id < 0 || id >= PL->nobj || PL->obj[id].kind != K_RAW || !PL->obj[id].p[0] || !RO[id].registered || RO[id].closing)
				return 0;
			o = &RO[id];
			o->posts++;
			o->post_begin_seq = ++SEQ;
			o->posting++;
			simk_log(101, OP_RFORK, 1000 + id);
			pid = simk_real_fork();
			if (pid == 0) {
				iv_event_raw_post(o->mem);
				_exit(0);
			}
			if (pid > 0)
				while (waitpid(pid, &st, 0) < 0 && errno == EINTR)
					;
			o->posting--;
			if (o->registered && !o->posting)
				o->post_done_seq = o->post_begin_seq;
			PROBE[PR_POST_CROSS]++;
			return 1;
		}
	}
	case OP_BURST: {
		long n = op->a, i;
		if (op->d < 0 || op->d >= PL->nobj)
			return 0;
		for (i = 0; i < n && !have_viol(); i++)
			if (!op_post(th, (int)op->d, 0))
				break;
		return i > 0;
	}
	}
	return ext2_op(th, op);
}

void ext_cb(struct rthr *th, int id, int kind, int band, int64_t x1, int64_t x2)
{
	switch (kind) {
	case K_SIGNAL:
		if (RO[id].registered) {
			signal_cb(th, id);
			RO[id].xi[SX_INHANDLER] = 1;
		}
		return;
	}
	ext2_cb(th, id, kind, band, x1, x2);
}

void ext_cb_exit(struct rthr *th, int id, int kind)
{
	(void)th;
	if (kind == K_SIGNAL)
		RO[id].xi[SX_INHANDLER] = 0;
	ext2_cb_exit(th, id, kind);
}

int ext_foreign_thread_ok(int id, int kind) { return ext2_foreign_thread_ok(id, kind); }
int ext_nesting_ok(int kind, int outer_kind) { return ext2_nesting_ok(kind, outer_kind); }
int ext_stale_ok(int id, int kind, int band) { return ext2_stale_ok(id, kind, band); }
void ext_timer_order(struct rthr *th, int id) { (void)th; (void)id; }
void ext_wait_block(struct rthr *th) { ext2_wait_block(th); }
void ext_wait_return(struct rthr *th, int res, int err)
{
	int i, t = (int)(th - RT);
	(void)res; (void)err;
	/* whatever woke an interest before this point is used up by the handler run that follows */
	for (i = 0; i < PL->nobj; i++)
		if (PL->obj[i].kind == K_SIGNAL && PL->obj[i].owner == t && RO[i].registered)
			RO[i].posts = (long)RO[i].xi[SX_WAKES];
}
void ext_time_advance(int64_t from, int64_t to) { ext2_time_advance(from, to); }
void ext_budget(const char *what) { (void)what; }
void ext_deadlock(const char *what) { (void)what; }
const char *ext_uaf_hint(void) { return ""; }
const char *ext_uaf_prop(void) { return ext2_uaf_prop(); }
void ext_teardown(struct rthr *th) { ext2_teardown(th); }
void ext_post_main(struct rthr *th) { ext2_post_main(th); }
void ext_after_first_init(void) { }

static void obs_would_block(int tid, int fd)
{
	viol("C09.blocked", "a library write on its own descriptor %d (blocking mode, no room left) would have blocked thread sim %d: posting must never block the poster", fd, tid);
	finish(1);
}

void ext_install_obs(void)
{
	simk_obs.would_block = obs_would_block;
	simk_obs.sig_deliver = obs_sig_deliver;
	simk_obs.lock_event = obs_lock_event;
	ext2_install_obs();
}

void ext_run_begin(void)
{
	int i;
	nsgroup = 0;
	memset(spin_releases, 0, sizeof(spin_releases));
	memset(pend_deliv, 0, sizeof(pend_deliv));
	memset(pend_unreg, 0, sizeof(pend_unreg));
	for (i = 0; i < PL->nobj; i++)
		if (PL->obj[i].kind == K_RAW && PL->obj[i].p[1] > 0 && PL->obj[i].p[1] <= 64)
			simk_harness_sigaction((int)PL->obj[i].p[1], hsig);
	ext2_run_begin();
}

void ext_obligations(void)
{
	signal_obligations();
	ext2_obligations();
}

void ext_end_of_run(int all_exited) { ext2_end_of_run(all_exited); }
