/* ext.c -- object kinds beyond fd/timer/task/event/raw (signals, children,
 * work pools, iv_thread, popen, pump, inotify) and their oracles. */
#define _GNU_SOURCE
#include <stdlib.h>
#include <string.h>
#include "engine.h"

int ext_live(int id) { (void)id; return 0; }
int ext_reg(struct rthr *th, int id, const struct pop *op) { (void)th; (void)id; (void)op; return 0; }
int ext_unreg(struct rthr *th, int id, int keep) { (void)th; (void)id; (void)keep; return 0; }
int ext_op(struct rthr *th, const struct pop *op) { (void)th; (void)op; return 0; }
void ext_cb(struct rthr *th, int id, int kind, int band, int64_t x1, int64_t x2) { (void)th; (void)id; (void)kind; (void)band; (void)x1; (void)x2; }
int ext_foreign_thread_ok(int id, int kind) { (void)id; (void)kind; return 0; }
int ext_nesting_ok(int kind, int outer_kind) { (void)kind; (void)outer_kind; return 0; }
int ext_stale_ok(int id, int kind, int band) { (void)id; (void)kind; (void)band; return 0; }
void ext_timer_order(struct rthr *th, int id) { (void)th; (void)id; }
void ext_wait_block(struct rthr *th) { (void)th; }
void ext_wait_return(struct rthr *th, int res, int err) { (void)th; (void)res; (void)err; }
void ext_time_advance(int64_t from, int64_t to) { (void)from; (void)to; }
void ext_budget(const char *what) { (void)what; }
void ext_deadlock(const char *what) { (void)what; }
const char *ext_uaf_hint(void) { return ""; }
const char *ext_uaf_prop(void) { return "C01.uaf"; }
void ext_teardown(struct rthr *th) { (void)th; }
void ext_post_main(struct rthr *th) { (void)th; }
void ext_after_first_init(void) { }
void ext_install_obs(void) { }
void ext_run_begin(void) { }
void ext_obligations(void) { }
void ext_end_of_run(int all_exited) { (void)all_exited; }
