/* ext2.c -- children and wait interests (C11), popen (C19), work pools and
 * iv_thread (C12, C13); pump and inotify live in ext3.c */
#define _GNU_SOURCE
#include <errno.h>
#include <inttypes.h>
#include <pthread.h>
#include <signal.h>
#include <stdlib.h>
#include <string.h>
#include <sys/stat.h>
#include <sys/syscall.h>
#include <sys/wait.h>
#include <unistd.h>

#include <iv.h>
#include <iv_popen.h>
#include <iv_thread.h>
#include <iv_wait.h>
#include <iv_work.h>

#include "engine.h"
#include "ext.h"

/* =====================================================================================
 * children (simulated processes), wait interests, popen
 * ===================================================================================== */
#define CX_PID		0
#define CX_SERIAL	1
#define CX_HOW		2	/* 0 not spawned, 1 stranger, 2 forked by the library, 3 stranger being forked (no pid yet) */
#define CX_DEATHOK	3	/* died while somebody was certainly listening for SIGCHLD */
#define CX_DEAD		4
#define CX_POPEN	5	/* popen object id + 1 */
#define CX_REAPED_DEAD	6
#define CX_DEATH_EPOCH	7

#define WX_NEXT		0
#define WX_OPT		1
#define WX_DEADDELIV	2
#define WX_INPROG	3
#define WX_VOID		4
#define WX_LASTWAIT	5	/* plain interest on a pid whose death was reaped before the registration completed */

#define PX_FD		0
#define PX_CLOSED	1
#define PX_T0		2
#define PX_SUBMITTED	3
#define PX_GRACE	4
#define PX_ALIVE_AT_CLOSE 5
#define PX_REALCHECKED	6

#define NRLOG 96
static struct { int n, saturated; struct { uint64_t seq; int status; } e[NRLOG]; } rlog[MAXOBJ];
static int pending_spawn[SIMK_MAXT];	/* child obj + 1 being spawned by this sim thread */
static int wait_full_count, wait_epoch;
static int expect_kill_child[SIMK_MAXT];	/* child obj + 1 the current harness kill is meant for */

static int status_dead(int st) { return WIFEXITED(st) || WIFSIGNALED(st); }

static void mk_script(int c, struct simk_child_script *s)
{
	const struct pobj *po = &PL->obj[c];
	memset(s, 0, sizeof(*s));
	s->exit_after_ns = po->p[0];
	s->exit_status = (int)po->p[1];
	s->term_mode = (int)po->p[2];
	s->term_n = (int)po->p[3];
	s->term_delay_ns = po->p[4];
	s->nstops = (int)po->p[5];
	if (s->nstops > 0) {
		s->stop_at_ns[0] = po->p[6];
		s->cont_at_ns[0] = po->p[6] + po->p[7];
		s->stop_at_ns[1] = po->p[6] + 2 * po->p[7] + 1000;
		s->cont_at_ns[1] = po->p[6] + 3 * po->p[7] + 1000;
		if (s->nstops > 2)
			s->nstops = 2;
	}
}

static int child_by_serial(int serial)
{
	int i;
	for (i = 0; i < PL->nobj; i++)
		if (PL->obj[i].kind == K_CHILD && RO[i].xi[CX_HOW] && RO[i].xi[CX_SERIAL] == serial)
			return i;
	return -1;
}

static int spawning_child[SIMK_MAXT];	/* child obj + 1 whose library-side spawn call is in progress */
static int pending_spawn_for(int c)
{
	int i;
	for (i = 0; i < SIMK_MAXT; i++)
		if (spawning_child[i] == c + 1)
			return 1;
	return 0;
}

static void obs_child_event(pid_t pid, int serial, int state, int status)
{
	int c;
	(void)status;
	if (state == 1) {
		int tid = simk_self();
		c = pending_spawn[tid] - 1;
		if (c >= 0) {
			RO[c].xi[CX_PID] = pid;
			RO[c].xi[CX_SERIAL] = serial;
			if (RO[c].xi[CX_HOW] == 3)
				RO[c].xi[CX_HOW] = 1;
			pending_spawn[tid] = 0;
		}
		return;
	}
	c = child_by_serial(serial);
	if (c < 0)
		return;
	if (state == 3) {
		RO[c].xi[CX_DEAD] = 1;
		/* somebody is certainly listening for SIGCHLD: a fully registered interest exists, or the
		 * library itself is in the middle of forking this child for one */
		RO[c].xi[CX_DEATHOK] = wait_full_count > 0 || pending_spawn_for(c);
		RO[c].xi[CX_DEATH_EPOCH] = wait_epoch;
	}
}

static void obs_reap(int tid, pid_t pid, int status)
{
	int c = child_by_serial(simk_child_serial(pid));
	(void)tid;
	++SEQ;
	if (c < 0)
		return;
	if (rlog[c].n < NRLOG) {
		rlog[c].e[rlog[c].n].seq = SEQ;
		rlog[c].e[rlog[c].n].status = status;
		rlog[c].n++;
	} else {
		rlog[c].saturated = 1;	/* history too long to keep: routing of this child is no longer checked */
	}
	if (status_dead(status)) {
		RO[c].xi[CX_REAPED_DEAD] = 1;
		if (RO[c].xi[CX_POPEN]) {
			int p = (int)RO[c].xi[CX_POPEN] - 1;
			RO[p].xi[PX_GRACE] = RT[PL->obj[p].owner].nwaits + 4;
		}
	}
	if (simk_stats.pid_reused)
		PROBE[PR_PID_REUSED] = simk_stats.pid_reused;
}

static void obs_kill(int tid, pid_t pid, int sig, int result)
{
	int c, want = expect_kill_child[tid] - 1;

	(void)result;
	if (pid == getpid())
		return;
	c = child_by_serial(simk_child_serial(pid));
	if (simk_child_state(pid) == 4) {
		PROBE[PR_KILL_DEAD]++;
		viol(want >= 0 && !RO[want].xi[CX_POPEN] ? "C11.kill_reaped" : "C19.after_reap",
		     "signal %d was sent to pid %d although its termination had already been reaped", sig, (int)pid);
		viol("C11.kill_reaped", "signal %d sent to a reaped pid %d", sig, (int)pid);
	} else if (want >= 0 && c != want) {
		viol("C11.kill_reaped", "signal %d meant for child obj %d reached pid %d, which now belongs to child obj %d (pid reused after the reap)", sig, want, (int)pid, c);
	} else if (want < 0 && (c < 0 || !RO[c].xi[CX_POPEN] || RO[c].xi[CX_REAPED_DEAD])) {
		viol("C19.after_reap", "the library signalled pid %d (signal %d), which is not a live popen child any more (child obj %d)", (int)pid, sig, c);
		viol("C11.kill_reaped", "signal %d reached pid %d after its popen child was reaped", sig, (int)pid);
	} else if (c >= 0 && RO[c].xi[CX_DEAD]) {
		PROBE[PR_KILL_DEAD]++;	/* zombie: harmless */
	}
	if (c >= 0 && RO[c].xi[CX_POPEN])
		PROBE[PR_POPEN_KILL]++;
	if (have_viol())
		finish(1);
}

static void h_wait(void *ck, int status, const struct rusage *ru)
{
	(void)ru;
	generic_cb(ck, K_WAIT, 0, status, 0);
}
static void child_fn(void *cookie) { (void)cookie; _exit(0); }

static int child_has_interest(int c)
{
	int i;
	for (i = 0; i < PL->nobj; i++)
		if (PL->obj[i].kind == K_WAIT && PL->obj[i].p[1] == c && (RO[i].registered || RO[i].xi[WX_INPROG]))
			return 1;
	return 0;
}

static int wait_reg(struct rthr *th, int id)
{
	struct robj *o = &RO[id];
	const struct pobj *po = &PL->obj[id];
	int c = (int)po->p[1], spawn = po->p[0] == 0, ret;
	struct iv_wait_interest *w;
	struct simk_child_script s;

	if (c < 0 || c >= PL->nobj || PL->obj[c].kind != K_CHILD || child_has_interest(c))
		return 0;
	if (spawn && RO[c].xi[CX_HOW])
		return 0;
	if (!spawn && (!RO[c].xi[CX_HOW] || RO[c].xi[CX_HOW] == 3 || RO[c].xi[CX_DEAD]))
		return 0;
	o->memsz = sizeof(struct iv_wait_interest);
	o->mem = malloc(o->memsz);
	memset(o->mem, 0xA5, o->memsz);
	w = o->mem;
	IV_WAIT_INTEREST_INIT(w);
	w->cookie = new_cookie(id);
	w->handler = h_wait;
	o->xi[WX_DEADDELIV] = 0;
	o->xi[WX_INPROG] = 1;
	++SEQ;
	if (spawn) {
		mk_script(c, &s);
		simk_next_child_script(&s);
		pending_spawn[th->sim] = c + 1;
		RO[c].xi[CX_HOW] = 2;
		o->xi[WX_NEXT] = 0;
		o->xi[WX_OPT] = 0;
		o->xi[WX_VOID] = 0;
		rlog[c].n = 0;
		spawning_child[th->sim] = c + 1;
		reg_fault_arm(id, 1, FS_FORK, EAGAIN);
		long ff0 = faults_fired_total();
		ret = iv_wait_interest_register_spawn(w, child_fn, NULL);
		reg_fault_disarm(FS_FORK);
		spawning_child[th->sim] = 0;
		pending_spawn[th->sim] = 0;
		if (ret < 0) {
			unexplained_failure("iv_wait_interest_register_spawn", id, ff0);
			PROBE[PR_REG_FAILED_EXT]++;
			RO[c].xi[CX_HOW] = 0;
			o->xi[WX_INPROG] = 0;
			obj_free_mem(id);
			return 1;
		}
		if (RO[c].xi[CX_PID] != w->pid)
			viol("C11.route", "wait obj %d: register_spawn stored pid %d, the forked child is %d", id, (int)w->pid, (int)RO[c].xi[CX_PID]);
	} else {
		w->pid = (pid_t)RO[c].xi[CX_PID];
		/* valid use of a plain interest: its pid does not get recycled behind the application's back */
		simk_pid_hold(w->pid, 1);
		o->xi[WX_NEXT] = rlog[c].n;
		iv_wait_interest_register(w);
		o->xi[WX_OPT] = rlog[c].n;
		{
			int64_t j;
			o->xi[WX_VOID] = 0;
			for (j = o->xi[WX_NEXT]; j < o->xi[WX_OPT]; j++)
				if (status_dead(rlog[c].e[j].status))
					o->xi[WX_VOID] = 1;	/* the application lost the race: the pid may belong to anybody now */
		}
	}
	o->xi[WX_INPROG] = 0;
	o->registered = 1;
	wait_full_count++;
	return 1;
}

static int wait_unreg(struct rthr *th, int id)
{
	struct robj *o = &RO[id];
	(void)th;
	if (--wait_full_count == 0)
		wait_epoch++;
	o->registered = 0;
	o->xi[WX_INPROG] = 2;
	iv_wait_interest_unregister(o->mem);
	o->xi[WX_INPROG] = 0;
	if (PL->obj[id].p[0] == 1)
		simk_pid_hold(((struct iv_wait_interest *)o->mem)->pid, 0);
	o->gen++;
	obj_free_mem(id);
	return 1;
}

static void wait_cb(struct rthr *th, int id, int status)
{
	struct robj *o = &RO[id];
	int c = (int)PL->obj[id].p[1];
	int64_t j = o->xi[WX_NEXT];

	PROBE[PR_WAIT_CB]++;
	if (th != NULL) {
		if (o->xi[WX_LASTWAIT] == th->nwaits + 1)
			PROBE[PR_KILL_DEAD + 0] += 0, PROBE[PR_MULTI_DUE]++;	/* two statuses in one batch */
		o->xi[WX_LASTWAIT] = th->nwaits + 1;
	}
	if (rlog[c].saturated || o->xi[WX_VOID])
		return;
	if (o->xi[WX_DEADDELIV])
		viol("C11.after_death", "wait obj %d: handler invoked with status 0x%x after the terminating status had been delivered", id, status);
	while (j < rlog[c].n && rlog[c].e[j].status != status && j < o->xi[WX_OPT])
		j++;
	if (j >= rlog[c].n || rlog[c].e[j].status != status) {
		viol("C11.route", "wait obj %d (child obj %d pid %d): handler got status 0x%x, but the next reaped status for that child is %s0x%x (delivered %" PRId64 " of %d reaped)",
		     id, c, (int)RO[c].xi[CX_PID], status, o->xi[WX_NEXT] < rlog[c].n ? "" : "none/", o->xi[WX_NEXT] < rlog[c].n ? rlog[c].e[o->xi[WX_NEXT]].status : 0,
		     o->xi[WX_NEXT], rlog[c].n);
	} else {
		o->xi[WX_NEXT] = j + 1;
	}
	if (status_dead(status))
		o->xi[WX_DEADDELIV] = 1;
}

/* ---- popen ------------------------------------------------------------------------ */
static char *popen_argv[] = { "puppet", NULL };

/* C19 wiring: really fork + exec a shell that reports what its standard streams are */
static void popen_real_check(int id, int fd, int c)
{
	struct robj *o = &RO[id];
	int for_read = PL->obj[id].p[0] == 0, st;
	pid_t pid = (pid_t)RO[c].xi[CX_PID];
	char path[96], l0[128] = "", l1[128] = "", l2[128] = "", l3[128] = "", want[64], data[32] = "";
	struct stat sb;
	FILE *f;

	if (!for_read) {
		if (syscall(SYS_write, (long)fd, "PING\n", 5L) != 5)
			viol("C19.wiring", "popen obj %d (type w): cannot write to the returned descriptor", id);
	}
	st = simk_real_child_wait(pid);
	(void)st;
	snprintf(path, sizeof(path), "/dev/shm/ivsim-pup-%d-%d", (int)getpid(), id);
	f = fopen(path, "r");
	if (f == NULL) {
		viol("C19.wiring", "popen obj %d: the child did not run the requested program (no report)", id);
		return;
	}
	if (fgets(l0, sizeof(l0), f) && fgets(l1, sizeof(l1), f) && fgets(l2, sizeof(l2), f))
		if (!fgets(l3, sizeof(l3), f))
			l3[0] = 0;
	fclose(f);
	unlink(path);
	l0[strcspn(l0, "\n")] = 0; l1[strcspn(l1, "\n")] = 0; l2[strcspn(l2, "\n")] = 0; l3[strcspn(l3, "\n")] = 0;
	fstat(fd, &sb);
	snprintf(want, sizeof(want), "pipe:[%lu]", (unsigned long)sb.st_ino);
	if (for_read) {
		long n;
		if (strcmp(l0, "/dev/null") || strcmp(l1, want) || strcmp(l2, "/dev/null"))
			viol("C19.wiring", "popen obj %d (type r): child has stdin=%s stdout=%s stderr=%s, expected /dev/null, the pipe whose other end was returned, /dev/null", id,
			     strcmp(l0, want) ? (strncmp(l0, "pipe:", 5) ? l0 : "another pipe") : "the pipe", strcmp(l1, want) ? (strncmp(l1, "pipe:", 5) ? "a file" : "another pipe") : "the pipe",
			     strcmp(l2, want) ? (strncmp(l2, "pipe:", 5) ? l2 : "another pipe") : "the pipe");
		n = syscall(SYS_read, (long)fd, data, (long)sizeof(data) - 1);
		if (n != 11 || memcmp(data, "ivsim-data\n", 11))
			viol("C19.wiring", "popen obj %d (type r): what the child wrote to its standard output did not arrive on the returned descriptor (%ld bytes)", id, n);
	} else {
		if (strcmp(l0, want) || strcmp(l1, "/dev/null") || strcmp(l2, "/dev/null"))
			viol("C19.wiring", "popen obj %d (type w): child has stdin=%s stdout=%s stderr=%s, expected the pipe whose other end was returned, /dev/null, /dev/null", id,
			     strcmp(l0, want) ? (strncmp(l0, "pipe:", 5) ? l0 : "another pipe") : "the pipe", strcmp(l1, want) ? (strncmp(l1, "pipe:", 5) ? (strcmp(l1, "/dev/null") ? "a file" : l1) : "another pipe") : "the pipe",
			     strcmp(l2, want) ? (strncmp(l2, "pipe:", 5) ? l2 : "another pipe") : "the pipe");
		if (strcmp(l3, "PING"))
			viol("C19.wiring", "popen obj %d (type w): what was written to the returned descriptor did not arrive on the child's standard input ('%s')", id, l3);
	}
	o->xi[PX_REALCHECKED] = 1;
	PROBE[PR_PID_REUSED + 0] += 0;
}

static int popen_reg(struct rthr *th, int id)
{
	struct robj *o = &RO[id];
	const struct pobj *po = &PL->obj[id];
	int c = (int)po->p[1], fd;
	struct iv_popen_request *req;
	struct simk_child_script s;

	if (c < 0 || c >= PL->nobj || PL->obj[c].kind != K_CHILD || RO[c].xi[CX_HOW] || o->xi[PX_SUBMITTED])
		return 0;
	o->memsz = sizeof(struct iv_popen_request);
	o->mem = malloc(o->memsz);
	memset(o->mem, 0xA5, o->memsz);
	req = o->mem;
	IV_POPEN_REQUEST_INIT(req);
	req->file = "/verif/build/puppet";
	req->argv = popen_argv;
	req->type = po->p[0] ? "w" : "r";
	if (po->p[2]) {
		static char scripts[MAXOBJ][400];
		static char *argvs[MAXOBJ][4];
		char *script = scripts[id], **argv = argvs[id];
		snprintf(script, sizeof(scripts[0]),
			 "R=/dev/shm/ivsim-pup-%d-%d; L=$(readlink /proc/$$/fd/0 /proc/$$/fd/1 /proc/$$/fd/2); echo \"$L\" > $R; %s",
			 (int)getpid(), id, po->p[0] ? "head -c 5 >> $R" : "echo ivsim-data");
		argv[0] = "sh"; argv[1] = "-c"; argv[2] = script; argv[3] = NULL;
		req->file = "/bin/sh";
		req->argv = argv;
		simk_set_real_fork(1);
	}
	mk_script(c, &s);
	simk_next_child_script(&s);
	pending_spawn[th->sim] = c + 1;
	RO[c].xi[CX_HOW] = 2;
	RO[c].xi[CX_POPEN] = id + 1;
	rlog[c].n = 0;
	spawning_child[th->sim] = c + 1;
	if (!reg_fault_arm(id, 1, FS_PIPE, EMFILE))
		reg_fault_arm(id, 2, FS_FORK, EAGAIN);
	long ff0 = faults_fired_total();
	fd = iv_popen_request_submit(req);
	reg_fault_disarm(FS_PIPE);
	reg_fault_disarm(FS_FORK);
	spawning_child[th->sim] = 0;
	pending_spawn[th->sim] = 0;
	if (fd < 0) {
		unexplained_failure("iv_popen_request_submit", id, ff0);
		simk_set_real_fork(0);
		PROBE[PR_REG_FAILED_EXT]++;
		RO[c].xi[CX_HOW] = 0;
		RO[c].xi[CX_POPEN] = 0;
		obj_free_mem(id);
		return 1;
	}
	simk_fd_disown(fd);
	o->xi[PX_FD] = fd;
	o->xi[PX_SUBMITTED] = 1;
	o->xi[PX_CLOSED] = 0;
	o->registered = 1;
	if (po->p[2])
		popen_real_check(id, fd, c);
	return 1;
}

static int popen_close(struct rthr *th, int id)
{
	struct robj *o = &RO[id];
	int c = (int)PL->obj[id].p[1];

	o->xi[PX_ALIVE_AT_CLOSE] = !RO[c].xi[CX_REAPED_DEAD];
	iv_popen_request_close(o->mem);
	o->xi[PX_T0] = th->last_clock;
	o->xi[PX_CLOSED] = 1;
	syscall(SYS_close, (long)o->xi[PX_FD]);
	o->registered = 0;
	o->gen++;
	obj_free_mem(id);
	return 1;
}

static void popen_check_schedule(int id, int final)
{
	struct robj *o = &RO[id];
	int c = (int)PL->obj[id].p[1], k, n, sig;
	pid_t pid = (pid_t)RO[c].xi[CX_PID];

	(void)final;
	if (!o->xi[PX_CLOSED])
		return;
	if (simk_child_serial(pid) != RO[c].xi[CX_SERIAL])
		return;		/* pid re-used since: signal log belongs to somebody else */
	n = simk_child_nsigs(pid);
	if (n > 32)
		n = 32;
	for (k = 0; k < n; k++) {
		int64_t t = simk_child_sigtime(pid, k, &sig), lo = o->xi[PX_T0] + 5000000000LL * k, hi = lo + 1000000LL * (k + 1);
		int want = k < 5 ? SIGTERM : SIGKILL;
		if (sig != want)
			viol("C19.schedule", "popen obj %d: signal #%d sent to the child was %d, expected %d (five termination requests, then kills)", id, k + 1, sig, want);
		if (t < lo || t > hi)
			viol("C19.schedule", "popen obj %d: signal #%d was sent at t0%+" PRId64 " ns, expected within [%" PRId64 ", %" PRId64 "] of the close", id, k + 1, t - o->xi[PX_T0], lo - o->xi[PX_T0], hi - o->xi[PX_T0]);
	}
	if (n == 0 && o->xi[PX_ALIVE_AT_CLOSE] && !RO[c].xi[CX_DEAD] && final)
		viol("C19.schedule", "popen obj %d: closed while the child was running, but the child never received a signal", id);
}

/* =====================================================================================
 * work pools, iv_thread
 * ===================================================================================== */
#define QX_PUT		0
#define QX_STARTS	1
#define QX_STOPS	2
#define QX_RUNNING	3
#define QX_OUTSTANDING	4
#define QX_CREATED	5
#define QX_GRACE	6
#define QX_CONT		7	/* continuation submissions in progress */

#define IX_STATE	0	/* 0 idle, 1 submitted, 2 working, 3 worked, 4 done */
#define IX_INSUBMIT	1

#define TX_TID		0
#define TX_STATE	1	/* 0 none, 1 created, 2 running, 3 exited */
#define TX_GRACE	2

static int pool_waiter[MAXOBJ];	/* a work function of this pool is waiting for its continuation to start */
static int cont_started[MAXOBJ];	/* the item's work function has been entered (since it was last submitted) */
static int worker_pool[SIMK_MAXT];	/* pool obj + 1 */
static int worker_state[SIMK_MAXT];	/* 1 started, 2 stopped */
static int ivthread_of[SIMK_MAXT];	/* ivthread obj + 1 */

static void h_tstart(void *ck)
{
	struct cookie *c = ck;
	int tid = simk_self();
	++SEQ;
	if (worker_state[tid] != 0)
		viol("C13.hooks", "pool obj %d: thread_start hook called twice in one thread", c->id);
	worker_pool[tid] = c->id + 1;
	worker_state[tid] = 1;
	RO[c->id].xi[QX_STARTS]++;
	simk_log(110, c->id, tid);
	if (sim2plan[tid] >= 0)
		viol("C12.work_thread", "pool obj %d: thread_start hook ran in plan thread %d, not in a pool thread", c->id, sim2plan[tid]);
	if (have_viol())
		finish(1);
}

static void h_tstop(void *ck)
{
	struct cookie *c = ck;
	int tid = simk_self();
	++SEQ;
	if (worker_state[tid] != 1 || worker_pool[tid] != c->id + 1)
		viol("C13.hooks", "pool obj %d: thread_stop hook without a matching thread_start in this thread (state %d)", c->id, worker_state[tid]);
	worker_state[tid] = 2;
	RO[c->id].xi[QX_STOPS]++;
	simk_log(111, c->id, tid);
	if (have_viol())
		finish(1);
}

static int pool_reg(struct rthr *th, int id)
{
	struct robj *o = &RO[id];
	const struct pobj *po = &PL->obj[id];
	struct iv_work_pool *wp;

	(void)th;
	if (o->xi[QX_CREATED])
		return 0;
	o->memsz = sizeof(struct iv_work_pool);
	o->mem = malloc(o->memsz);
	memset(o->mem, 0xA5, o->memsz);
	wp = o->mem;
	IV_WORK_POOL_INIT(wp);
	wp->max_threads = (int)po->p[0];
	wp->cookie = new_cookie(id);
	if (po->p[1]) {
		wp->thread_start = h_tstart;
		wp->thread_stop = h_tstop;
	}
	if (iv_work_pool_create(wp) != 0) {
		obj_free_mem(id);
		return 1;
	}
	o->xi[QX_CREATED] = 1;
	o->xi[QX_PUT] = 0;
	o->registered = 1;
	return 1;
}

static int pool_put(struct rthr *th, int id)
{
	struct robj *o = &RO[id];
	if (!o->registered || o->xi[QX_PUT] || o->xi[QX_CONT] > 0 || PL->obj[id].owner != (int)(th - RT))
		return 0;
	if (o->xi[QX_RUNNING] > 0 || o->xi[QX_OUTSTANDING] > 0)
		PROBE[PR_POOL_PUT_BUSY]++;
	o->xi[QX_PUT] = 1;
	iv_work_pool_put(o->mem);
	o->xi[QX_GRACE] = th->nwaits + 5;
	o->registered = 0;
	/* the structure may be reused by the caller immediately */
	obj_free_mem(id);
	simk_log(101, OP_PUT, id);
	return 1;
}

static void h_work(void *ck);
static void h_done(void *ck) { generic_cb(ck, K_ITEM, 0, 0, 0); }

static int item_submit(struct rthr *th, int id, int continuation)
{
	struct robj *o = &RO[id];
	const struct pobj *po = &PL->obj[id];
	int pool = (int)po->p[0];
	struct iv_work_item *it;

	if (o->xi[IX_STATE] != 0 && o->xi[IX_STATE] != 4)
		return 0;
	if (o->ncb >= 8)
		return 0;
	if (pool >= 0) {
		if (!RO[pool].registered || RO[pool].xi[QX_PUT])
			return 0;
		if (!continuation && (th == NULL || PL->obj[pool].owner != (int)(th - RT)))
			return 0;
	} else if (th == NULL || po->owner != (int)(th - RT) || !th->inited) {
		return 0;
	}
	if (o->mem == NULL) {
		o->memsz = sizeof(struct iv_work_item);
		o->mem = malloc(o->memsz);
		memset(o->mem, 0xA5, o->memsz);
	}
	it = o->mem;
	IV_WORK_ITEM_INIT(it);
	if (o->ck == NULL)
		new_cookie(id);
	it->cookie = o->ck;
	it->work = h_work;
	it->completion = h_done;
	o->xi[IX_STATE] = 1;
	cont_started[id] = 0;
	o->xi[IX_INSUBMIT] = 1;
	if (pool >= 0)
		RO[pool].xi[QX_OUTSTANDING]++;
	++SEQ;
	simk_log(101, OP_SUBMIT, id);
	if (continuation && pool < 0) {
		iv_work_pool_submit_continuation(NULL, it);
	} else if (continuation) {
		hb_acquire(o);	/* the application hands the item from its completion to the worker */
		RO[pool].xi[QX_CONT]++;
		iv_work_pool_submit_continuation(RO[pool].mem, it);
		RO[pool].xi[QX_CONT]--;
	} else {
		iv_work_pool_submit_work(pool >= 0 ? RO[pool].mem : NULL, it);
	}
	o->xi[IX_INSUBMIT] = 0;
	return 1;
}

static void h_work(void *ck)
{
	struct cookie *c = ck;
	int id = c->id, tid = simk_self(), pool;
	struct robj *o = &RO[id];
	const struct pobj *po = &PL->obj[id];

	++SEQ;
	PROBE[PR_WORK_RUN]++;
	simk_log(112, id, tid);
	pool = (int)po->p[0];
	cont_started[id] = 1;
	if (o->xi[IX_STATE] != 1)
		viol("C12.work_count", "work item obj %d: work function invoked in state %" PRId64 " (1 = submitted and not yet run)", id, o->xi[IX_STATE]);
	if (pool >= 0) {
		int owner_sim = RT[PL->obj[pool].owner].sim;
		if (tid == owner_sim)
			viol("C12.work_thread", "work item obj %d: work function ran in the owner thread", id);
		else if (sim2plan[tid] >= 0 || !simk_lib_thread(tid))
			viol("C12.work_thread", "work item obj %d: work function ran in a thread the pool did not create (sim %d)", id, tid);
		else if (PL->obj[pool].p[1] && (worker_state[tid] != 1 || worker_pool[tid] != pool + 1))
			viol("C12.work_thread", "work item obj %d: work function ran in a thread that is not between this pool's thread_start and thread_stop hooks (state %d)", id, worker_state[tid]);
		if (++RO[pool].xi[QX_RUNNING] > PL->obj[pool].p[0])
			viol("C12.concurrency", "pool obj %d: %" PRId64 " work functions running at once, max_threads is %d", pool, RO[pool].xi[QX_RUNNING], (int)PL->obj[pool].p[0]);
	} else {
		struct rthr *th = cur_thr();
		if (th == NULL || (int)(th - RT) != po->owner)
			viol("C12.local", "work item obj %d (no pool): work function ran outside the submitting thread", id);
		else if (o->xi[IX_INSUBMIT])
			viol("C12.local", "work item obj %d (no pool): work function ran inside the submit call instead of from a task", id);
		else if (!th->in_main)
			viol("C12.local", "work item obj %d (no pool): work function ran outside iv_main", id);
	}
	if (have_viol())
		finish(1);
	o->xi[IX_STATE] = 2;
	if (po->p[1] > 0 && pool >= 0)
		simk_sleep(po->p[1]);
	else
		simk_yield();
	if (po->p[2] > 0 && pool >= 0 && !RO[pool].xi[QX_PUT] && RO[pool].registered) {
		int t = (int)po->p[2] - 1;
		if (t >= 0 && t < PL->nobj && PL->obj[t].kind == K_ITEM && PL->obj[t].p[0] == pool &&
		    item_submit(NULL, t, 1) && po->p[4] && PL->obj[pool].p[0] >= 2 && !pool_waiter[pool]) {
			/* this work function does not return before its continuation has started to run in
			 * another worker (one such dependency per pool at a time, and only where the pool may
			 * have a second thread): the pool has to provide that worker, released or not */
			pool_waiter[pool] = 1;
			PROBE[PR_WORK_DEPENDS]++;
			simk_flag_wait(&cont_started[t]);
			pool_waiter[pool] = 0;
		}
	} else if (po->p[2] > 0 && pool < 0) {
		/* no pool: the continuation is handed to the calling thread's own loop */
		int t = (int)po->p[2] - 1;
		if (t >= 0 && t < PL->nobj && PL->obj[t].kind == K_ITEM && PL->obj[t].p[0] < 0 && PL->obj[t].owner == po->owner)
			item_submit(cur_thr(), t, 1);
	}
	o->xi[IX_STATE] = 3;
	if (pool >= 0)
		RO[pool].xi[QX_RUNNING]--;
	simk_log(113, id, tid);
	if (have_viol())
		finish(1);
}

static void item_done_cb(struct rthr *th, int id)
{
	struct robj *o = &RO[id];
	int pool = (int)PL->obj[id].p[0];

	(void)th;
	PROBE[PR_WORK_DONE]++;
	if (o->xi[IX_STATE] == 4 || o->xi[IX_STATE] == 0)
		viol("C12.completion_count", "work item obj %d: completion invoked although it is not outstanding (state %" PRId64 ")", id, o->xi[IX_STATE]);
	else if (o->xi[IX_STATE] != 3)
		viol("C12.order", "work item obj %d: completion invoked before its work function returned (state %" PRId64 ")", id, o->xi[IX_STATE]);
	o->xi[IX_STATE] = 4;
	hb_release(o);
	if (pool >= 0)
		RO[pool].xi[QX_OUTSTANDING]--;
	if (PL->obj[id].p[3])
		obj_free_mem(id);
}

/* ---- iv_thread ------------------------------------------------------------------------ */
extern int engine_inited_threads_add(int d);

static void ivt_fn(void *arg)
{
	struct cookie *c = arg;
	int id = c->id, tid = simk_self();
	const struct pobj *po = &PL->obj[id];

	ivthread_of[tid] = id + 1;
	RO[id].xi[TX_TID] = tid;
	RO[id].xi[TX_STATE] = 2;
	simk_log(114, id, tid);
	if (po->p[1]) {
		engine_inited_threads_add(1);
		iv_init();
	}
	if (po->p[2] > 0)
		simk_sleep(po->p[2]);
	else
		simk_yield();
	if (po->p[1] == 1) {
		iv_deinit();
		engine_inited_threads_add(-1);
	}
	if (po->p[0])
		pthread_exit(NULL);
}

static int ivthread_reg(struct rthr *th, int id)
{
	struct robj *o = &RO[id];
	char name[32];
	(void)th;
	if (o->xi[TX_STATE])
		return 0;
	snprintf(name, sizeof(name), "ivt%d", id);
	o->xi[TX_STATE] = 1;
	reg_fault_arm(id, 1, FS_PTHREAD_CREATE, EAGAIN);
	long ff0 = faults_fired_total();
	if (iv_thread_create(name, ivt_fn, new_cookie(id)) != 0) {
		unexplained_failure("iv_thread_create", id, ff0);
		reg_fault_disarm(FS_PTHREAD_CREATE);
		PROBE[PR_REG_FAILED_EXT]++;
		o->xi[TX_STATE] = 0;
		return 1;
	}
	reg_fault_disarm(FS_PTHREAD_CREATE);
	o->registered = 1;
	return 1;
}

static void ext2_thread_exit(int tid)
{
	if (simk_lib_thread(tid) && !worker_pool[tid] && !ivthread_of[tid]) {
		/* a worker of a pool without hooks: its owner still has to join it and to run the pool's
		 * final event, whichever pool it belonged to */
		int i;
		for (i = 0; i < PL->nobj; i++)
			if (PL->obj[i].kind == K_POOL && RO[i].xi[QX_CREATED])
				RO[i].xi[QX_GRACE] = RT[PL->obj[i].owner].nwaits + 5;
	}
	if (worker_pool[tid]) {
		int p = worker_pool[tid] - 1;
		if (worker_state[tid] == 1)
			viol("C13.hooks", "pool obj %d: a worker thread exited without calling the thread_stop hook", p);
		RO[p].xi[QX_GRACE] = RT[PL->obj[p].owner].nwaits + 5;
	}
	if (ivthread_of[tid]) {
		int t = ivthread_of[tid] - 1;
		RO[t].xi[TX_STATE] = 3;
		RO[t].xi[TX_GRACE] = RT[PL->obj[t].owner].nwaits + 4;
		if (PL->obj[t].p[1] == 2)
			engine_inited_threads_add(-1);
	}
}

static int pool_workers_alive(int p)
{
	int i, n = 0;
	for (i = 1; i < simk_nthreads(); i++)
		if (worker_pool[i] == p + 1 && !simk_thread_exited(i))
			n++;
	return n;
}
static int pool_threads_pending(struct rthr *th)
{
	/* library threads created by this owner that have not announced themselves yet */
	int i, n = 0;
	(void)th;
	for (i = 1; i < simk_nthreads(); i++)
		if (simk_lib_thread(i) && !simk_thread_exited(i) && !worker_pool[i] && !ivthread_of[i])
			n++;
	return n;
}

/* =====================================================================================
 * dispatch
 * ===================================================================================== */
int ext2_live(int id)
{
	struct robj *o = &RO[id];
	switch (PL->obj[id].kind) {
	case K_WAIT:
		return o->registered;
	case K_POPEN: {
		int c = (int)PL->obj[id].p[1];
		return o->xi[PX_SUBMITTED] && !RO[c].xi[CX_REAPED_DEAD];
	}
	case K_POOL:
		return o->xi[QX_CREATED] && (!o->xi[QX_PUT] || o->xi[QX_OUTSTANDING] > 0 || pool_workers_alive(id) > 0);
	case K_IVTHREAD:
		return o->xi[TX_STATE] == 1 || o->xi[TX_STATE] == 2;
	case K_ITEM:
		/* an item submitted without a pool is queued on a library-internal task of the submitting thread */
		return PL->obj[id].p[0] < 0 && (o->xi[IX_STATE] == 1 || o->xi[IX_STATE] == 2 || o->xi[IX_STATE] == 3);
	}
	return ext3_live(id);
}

int ext2_maybe_live(int id)
{
	struct robj *o = &RO[id];
	struct rthr *th = PL->obj[id].owner >= 0 ? &RT[PL->obj[id].owner] : NULL;
	switch (PL->obj[id].kind) {
	case K_POPEN: {
		int c = (int)PL->obj[id].p[1];
		return o->xi[PX_SUBMITTED] && RO[c].xi[CX_REAPED_DEAD] && th->nwaits < o->xi[PX_GRACE];
	}
	case K_POOL:
		if (!o->xi[QX_CREATED] || ext2_live(id))
			return 0;
		return th->nwaits < o->xi[QX_GRACE] || pool_threads_pending(th) > 0;
	case K_IVTHREAD:
		if (o->xi[TX_STATE] != 3)
			return 0;
		return !simk_thread_joined((int)o->xi[TX_TID]) || th->nwaits < o->xi[TX_GRACE];
	}
	return 0;
}

int ext2_reg(struct rthr *th, int id, const struct pop *op)
{
	switch (PL->obj[id].kind) {
	case K_WAIT:
		return wait_reg(th, id);
	case K_POPEN:
		return popen_reg(th, id);
	case K_POOL:
		return pool_reg(th, id);
	case K_IVTHREAD:
		return ivthread_reg(th, id);
	}
	return ext3_reg(th, id, op);
}

int ext2_unreg(struct rthr *th, int id, int keep)
{
	switch (PL->obj[id].kind) {
	case K_WAIT:
		return wait_unreg(th, id);
	case K_POPEN:
		return popen_close(th, id);
	case K_POOL:
		return pool_put(th, id);
	case K_IVTHREAD:
	case K_ITEM:
	case K_CHILD:
		return 0;
	}
	return ext3_unreg(th, id, keep);
}

int ext2_op(struct rthr *th, const struct pop *op)
{
	int id = (int)op->d;

	switch (op->op) {
	case OP_SPAWN: {
		struct simk_child_script s;
		if (id < 0 || id >= PL->nobj || PL->obj[id].kind != K_CHILD || RO[id].xi[CX_HOW])
			return 0;
		mk_script(id, &s);
		pending_spawn[simk_self()] = id + 1;
		RO[id].xi[CX_HOW] = 3;	/* the fork handlers yield: the child exists only once it has a pid */
		rlog[id].n = 0;
		simk_log(101, OP_SPAWN, id);
		simk_spawn_stranger(&s);
		pending_spawn[simk_self()] = 0;
		return 1;
	}
	case OP_WKILL: {
		int c, ret;
		if (th == NULL || id < 0 || id >= PL->nobj || PL->obj[id].kind != K_WAIT || !RO[id].registered ||
		    PL->obj[id].owner != (int)(th - RT) || PL->obj[id].p[0] != 0)
			return 0;
		c = (int)PL->obj[id].p[1];
		expect_kill_child[th->sim] = c + 1;
		simk_log(101, OP_WKILL, id);
		ret = iv_wait_interest_kill(RO[id].mem, (int)op->a);
		expect_kill_child[th->sim] = 0;
		(void)ret;
		return 1;
	}
	case OP_TKILL:
		/* somebody (any thread, the environment) signals a child directly */
		if (id < 0 || id >= PL->nobj || PL->obj[id].kind != K_CHILD || !RO[id].xi[CX_HOW] || RO[id].xi[CX_HOW] == 3 || RO[id].xi[CX_REAPED_DEAD] || RO[id].xi[CX_POPEN])
			return 0;
		simk_log(101, OP_TKILL, id * 100 + op->a);
		simk_env_kill((pid_t)RO[id].xi[CX_PID], (int)op->a);
		simk_yield();
		return 1;
	case OP_PCLOSE:
		if (th == NULL || id < 0 || id >= PL->nobj || PL->obj[id].kind != K_POPEN || !RO[id].registered ||
		    PL->obj[id].owner != (int)(th - RT))
			return 0;
		return popen_close(th, id);
	case OP_SUBMIT:
		if (id < 0 || id >= PL->nobj || PL->obj[id].kind != K_ITEM)
			return 0;
		return item_submit(th, id, 0);
	case OP_PUT:
		if (th == NULL || id < 0 || id >= PL->nobj || PL->obj[id].kind != K_POOL)
			return 0;
		return pool_put(th, id);
	}
	return ext3_op(th, op);
}

void ext2_cb(struct rthr *th, int id, int kind, int band, int64_t x1, int64_t x2)
{
	switch (kind) {
	case K_WAIT:
		if (RO[id].registered)
			wait_cb(th, id, (int)x1);
		return;
	case K_ITEM:
		item_done_cb(th, id);
		return;
	}
	ext3_cb(th, id, kind, band, x1, x2);
}

void ext2_cb_exit(struct rthr *th, int id, int kind) { ext3_cb_exit(th, id, kind); }
int ext2_foreign_thread_ok(int id, int kind) { return ext3_foreign_thread_ok(id, kind); }
int ext2_nesting_ok(int kind, int outer_kind) { return ext3_nesting_ok(kind, outer_kind); }
int ext2_stale_ok(int id, int kind, int band)
{
	if (kind == K_ITEM)
		return 1;
	return ext3_stale_ok(id, kind, band);
}
void ext2_wait_block(struct rthr *th) { ext3_wait_block(th); }
/* Time is about to move on from `from` (nobody is runnable at `from`): every kill that the closing
 * sequence of a popen request owed before that instant must have been sent by now, as long as the child
 * is still alive and the owner's loop is running. */
static void popen_check_missing(int64_t from)
{
	int i;
	for (i = 0; i < PL->nobj; i++) {
		struct robj *o = &RO[i];
		int c, n, k;
		pid_t pid;
		if (PL->obj[i].kind != K_POPEN || !o->xi[PX_CLOSED] || !o->xi[PX_ALIVE_AT_CLOSE])
			continue;
		c = (int)PL->obj[i].p[1];
		pid = (pid_t)RO[c].xi[CX_PID];
		if (RO[c].xi[CX_DEAD] || simk_child_serial(pid) != RO[c].xi[CX_SERIAL] || !RT[PL->obj[i].owner].in_main)
			continue;
		n = simk_child_nsigs(pid);
		for (k = n; k < 32; k++) {
			int64_t hi = o->xi[PX_T0] + 5000000000LL * k + 1000000LL * (k + 1);
			if (hi + 1000000000LL >= from)	/* a second of slack: a missing kill stays missing */
				break;
			viol("C19.schedule", "popen obj %d: the child is still running %" PRId64 " ns after the close, but signal #%d (due at +%" PRId64 " ns) was never sent",
			     i, from - o->xi[PX_T0], k + 1, (int64_t)(5000000000LL * k));
			break;
		}
	}
}

void ext2_time_advance(int64_t from, int64_t to)
{
	popen_check_missing(from);
	ext3_time_advance(to);
}

const char *ext2_uaf_prop(void)
{
	struct rthr *th = cur_thr();
	if (th != NULL && th->cur_kind == K_POPEN)
		return "C19.uaf";
	return ext3_uaf_prop();
}

void ext2_teardown(struct rthr *th)
{
	int i, t = (int)(th - RT);
	/* release pools first (their workers need the loop to keep running for a while) */
	for (i = 0; i < PL->nobj; i++)
		if (PL->obj[i].owner == t && PL->obj[i].kind == K_POOL && RO[i].registered)
			pool_put(th, i);
	ext3_teardown(th);
}

/* The loop of this thread stays inside iv_main although the model knows of nothing that is registered
 * (C07.no_return has just been raised).  Name the property-specific promise that is broken with it:
 * a released pool that has drained, an iv_thread that has exited, a closed popen request whose child
 * was reaped must each have dropped what they held on the loop. */
void ext2_blame_no_return(struct rthr *th)
{
	int i, t = (int)(th - RT);
	for (i = 0; i < PL->nobj; i++) {
		const struct pobj *po = &PL->obj[i];
		struct robj *o = &RO[i];
		if (po->owner != t)
			continue;
		switch (po->kind) {
		case K_POOL:
			if (o->xi[QX_CREATED] && o->xi[QX_PUT] && o->xi[QX_OUTSTANDING] == 0 && pool_workers_alive(i) == 0)
				viol("C13.release", "thread %d: released pool obj %d has drained and all its workers have exited, yet the owner's loop does not return", t, i);
			break;
		case K_IVTHREAD:
			if (o->xi[TX_STATE] == 3)
				viol("C13.release", "thread %d: the thread of ivthread obj %d has exited, yet the creator's loop does not return", t, i);
			break;
		case K_POPEN:
			if (o->xi[PX_CLOSED] && RO[(int)po->p[1]].xi[CX_REAPED_DEAD])
				viol("C19.release", "thread %d: popen obj %d was closed and its child reaped, yet the loop does not return", t, i);
			break;
		}
	}
}

void ext2_post_main(struct rthr *th)
{
	int i, t = (int)(th - RT);
	if (!th->quit_req) {
		for (i = 0; i < PL->nobj; i++) {
			if (PL->obj[i].owner != t || PL->obj[i].kind != K_IVTHREAD || !RO[i].xi[TX_STATE])
				continue;
			if (RO[i].xi[TX_STATE] != 3 || !simk_thread_joined((int)RO[i].xi[TX_TID]))
				viol("C13.creator_held", "thread %d: iv_main returned although the thread created for ivthread obj %d has not %s", t, i,
				     RO[i].xi[TX_STATE] != 3 ? "exited" : "been joined");
		}
		for (i = 0; i < PL->nobj; i++)
			if (PL->obj[i].owner == t && PL->obj[i].kind == K_POOL && RO[i].xi[QX_CREATED] && RO[i].xi[QX_PUT] &&
			    (RO[i].xi[QX_OUTSTANDING] > 0 || pool_workers_alive(i) > 0))
				viol("C13.drain", "thread %d: iv_main returned while released pool obj %d still has %" PRId64 " item(s) outstanding / %d worker(s) alive", t, i,
				     RO[i].xi[QX_OUTSTANDING], pool_workers_alive(i));
	}
	ext3_post_main(th);
}

void ext2_install_obs(void)
{
	simk_obs.reap = obs_reap;
	simk_obs.kill = obs_kill;
	simk_obs.child_event = obs_child_event;
	ext3_install_obs();
}

void ext2_on_thread_exit(int tid) { ext2_thread_exit(tid); }

void ext2_run_begin(void)
{
	memset(rlog, 0, sizeof(rlog));
	memset(pending_spawn, 0, sizeof(pending_spawn));
	memset(expect_kill_child, 0, sizeof(expect_kill_child));
	memset(worker_pool, 0, sizeof(worker_pool));
	memset(worker_state, 0, sizeof(worker_state));
	memset(ivthread_of, 0, sizeof(ivthread_of));
	memset(spawning_child, 0, sizeof(spawning_child));
	wait_full_count = 0;
	wait_epoch = 0;
	{
		int i;
		for (i = 0; i < PL->nobj; i++)
			if (PL->obj[i].kind == K_CHILD)
				RO[i].xi[CX_SERIAL] = -1;
	}
	ext3_run_begin();
}

void ext2_obligations(void)
{
	int i;
	for (i = 0; i < PL->nobj; i++) {
		struct robj *o = &RO[i];
		const struct pobj *po = &PL->obj[i];
		switch (po->kind) {
		case K_WAIT: {
			int c = (int)po->p[1];
			int64_t from;
			if (!o->registered || !RT[po->owner].in_main)
				break;
			from = o->xi[WX_NEXT] > o->xi[WX_OPT] ? o->xi[WX_NEXT] : o->xi[WX_OPT];
			if (from < rlog[c].n && !o->xi[WX_DEADDELIV] && !rlog[c].saturated && !o->xi[WX_VOID])
				viol("C11.lost", "quiescence: wait obj %d (child obj %d pid %d): %d status change(s) were reaped for its child but only %" PRId64 " reached the handler (next undelivered status 0x%x)",
				     i, c, (int)RO[c].xi[CX_PID], rlog[c].n, o->xi[WX_NEXT], rlog[c].e[from].status);
			break;
		}
		case K_CHILD:
			if (o->xi[CX_HOW] && o->xi[CX_DEAD] && !o->xi[CX_REAPED_DEAD] && o->xi[CX_DEATHOK] && wait_full_count > 0 &&
			    o->xi[CX_DEATH_EPOCH] == wait_epoch && !o->xi[CX_POPEN])
				viol("C11.zombies", "quiescence: child obj %d (pid %d) died while wait interests were registered and is still a zombie", i, (int)o->xi[CX_PID]);
			if (o->xi[CX_POPEN] && o->xi[CX_DEAD] && !o->xi[CX_REAPED_DEAD])
				viol("C19.reaped", "quiescence: popen child obj %d (pid %d) ended but was never reaped", i, (int)o->xi[CX_PID]);
			break;
		case K_POPEN:
			popen_check_schedule(i, 1);
			break;
		case K_ITEM:
			if (o->xi[IX_STATE] >= 1 && o->xi[IX_STATE] <= 3) {
				int pool = (int)po->p[0];
				int owner = pool >= 0 ? PL->obj[pool].owner : po->owner;
				if (RT[owner].in_main && pool >= 0 && RO[pool].xi[QX_PUT])
					viol("C12.lost", "quiescence: work item obj %d, submitted before its pool was released, never completed (state %" PRId64 ")", i, o->xi[IX_STATE]);
				if (RT[owner].in_main)
					viol(pool >= 0 && RO[pool].xi[QX_PUT] ? "C13.drain" : "C12.lost",
					     "quiescence: work item obj %d is still in state %" PRId64 " (1 submitted, 2 working, 3 work function returned): its %s never happened",
					     i, o->xi[IX_STATE], o->xi[IX_STATE] == 3 ? "completion" : "work function");
			}
			break;
		case K_POOL:
			if (o->xi[QX_CREATED] && o->xi[QX_PUT] && o->xi[QX_OUTSTANDING] == 0 && pool_workers_alive(i) == 0) {
				int k;
				for (k = 1; k < simk_nthreads(); k++)
					if (worker_pool[k] == i + 1 && simk_thread_exited(k) && !simk_thread_joined(k) && !simk_thread_detached(k) &&
					    RT[po->owner].in_main)
						viol("C13.joined", "quiescence: worker thread (sim %d) of released pool obj %d has exited but was never joined", k, i);
			}
			break;
		}
	}
	if (simk_child_kill_after_reap() > 0)
		viol("C11.kill_reaped", "%d signal(s) were sent to a pid after its termination had been reaped", simk_child_kill_after_reap());
	ext3_obligations();
}

void ext2_end_of_run(int all_exited)
{
	int i;
	for (i = 0; i < PL->nobj; i++)
		if (PL->obj[i].kind == K_POPEN)
			popen_check_schedule(i, 0);
	ext3_end_of_run(all_exited);
}
