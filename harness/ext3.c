/* ext3.c -- timer populations (C05), iv_fd_pump (C17), iv_inotify (C20) */
#define _GNU_SOURCE
#include <errno.h>
#include <inttypes.h>
#include <stdlib.h>
#include <string.h>
#include <sys/syscall.h>
#include <unistd.h>

#include <iv.h>

#include "engine.h"
#include "ext.h"

/* =====================================================================================
 * C05: timer populations far beyond the object table (bulk timers)
 * ===================================================================================== */
#define BT_MAX 40000
struct btimer {
	struct iv_timer	*t;		/* individually allocated; freed when fired / unregistered */
	int64_t		expiry;
	uint64_t	reg_seq;
	int		state;		/* 0 free, 1 armed */
	int		owner;
	int		armed_idx;	/* position in the armed[] index */
};
static struct btimer *BT;
static int *bt_armed, bt_narmed, bt_nslots;
static uint64_t bt_rng;
static long bt_registered, bt_fired, bt_unregistered, bt_peak;
/* the current dispatch round (maximal run of consecutive timer callbacks of one thread) */
static uint64_t bt_round_seq;
static int64_t bt_round_max_fired;
static int bt_round_open, bt_round_thread;
static long bt_round_nwaits;

static uint64_t bt_rnd(void) { return sm64(&bt_rng); }

static void bt_round_close(void)
{
	int i;
	if (!bt_round_open)
		return;
	bt_round_open = 0;
	/* nobody that was registered before the round began, and is still waiting, may have an expiry
	 * strictly earlier than a timer that ran in this round */
	for (i = 0; i < bt_narmed; i++) {
		struct btimer *b = &BT[bt_armed[i]];
		if (b->owner == bt_round_thread && b->reg_seq < bt_round_seq && b->expiry < bt_round_max_fired) {
			viol("C05.order", "bulk timer %d (expiry %" PRId64 ", registered before the dispatch round began) is still waiting although a timer with the later expiry %" PRId64 " ran in that round",
			     bt_armed[i], b->expiry, bt_round_max_fired);
			break;
		}
	}
}

static void bt_index_add(int slot)
{
	BT[slot].armed_idx = bt_narmed;
	bt_armed[bt_narmed++] = slot;
	if (bt_narmed > bt_peak)
		bt_peak = bt_narmed;
}
static void bt_index_del(int slot)
{
	int i = BT[slot].armed_idx, last = bt_armed[bt_narmed - 1];
	bt_armed[i] = last;
	BT[last].armed_idx = i;
	bt_narmed--;
}

static void h_btimer(void *cookie)
{
	struct btimer *b = cookie;
	struct rthr *th = cur_thr();
	int slot = (int)(b - BT);

	SEQ++;
	note_progress(th);
	bt_fired++;
	PROBE[PR_TIMER_FIRED]++;
	if (th == NULL || (int)(th - RT) != b->owner)
		viol("C04.thread", "bulk timer %d: handler ran in the wrong thread", slot);
	else {
		th->spin = 0;
		th->cbs++;
		if (!th->in_main)
			viol("C07.outside", "bulk timer %d: callback outside iv_main", slot);
		if (b->state != 1) {
			viol("C04.count", "bulk timer %d: handler invoked although it is not armed (fired twice, or after unregister)", slot);
			viol("C05.independence", "bulk timer %d: handler invoked although it is not armed", slot);
		} else {
			if (!th->have_clock || th->last_clock < b->expiry) {
				viol("C04.early", "bulk timer %d: handler invoked with the loop clock at %" PRId64 " before its expiry %" PRId64, slot, th->last_clock, b->expiry);
				viol("C05.independence", "bulk timer %d fired early", slot);
			}
			/* dispatch rounds are shared with the object timers (engine.c): a round starts with the
			 * first timer callback after a callback of another kind or after a kernel poll */
			if (th->last_kind != K_TIMER || th->last_cb_wait != th->nwaits) {
				th->timer_round_seq = SEQ;
				th->timer_round_len = 0;
			}
			th->timer_round_len++;
			if (!bt_round_open || bt_round_thread != b->owner || bt_round_seq != th->timer_round_seq) {
				bt_round_close();
				bt_round_open = 1;
				bt_round_thread = b->owner;
				bt_round_seq = th->timer_round_seq;
				bt_round_max_fired = INT64_MIN;
				bt_round_nwaits = th->nwaits;
			}
			if (b->reg_seq < bt_round_seq) {
				if (b->expiry < bt_round_max_fired)
					viol("C05.order", "bulk timer %d (expiry %" PRId64 ") ran after a timer with the later expiry %" PRId64 " in the same dispatch round", slot, b->expiry, bt_round_max_fired);
				else
					bt_round_max_fired = b->expiry;
			}
			if (iv_timer_registered(b->t))
				viol("C01.oneshot", "bulk timer %d still reported registered inside its handler", slot);
			b->state = 0;
			bt_index_del(slot);
			note_freed(b->t, sizeof(*b->t));
			free(b->t);
			b->t = NULL;
		}
		th->last_kind = K_TIMER;
		th->last_cb_wait = th->nwaits;
	}
	if (have_viol())
		finish(1);
}

static int bt_free_slot(void)
{
	int i;
	if (bt_nslots < BT_MAX)
		return bt_nslots++;
	for (i = 0; i < BT_MAX; i++)
		if (BT[i].state == 0)
			return i;
	return -1;
}

static void bt_register(struct rthr *th, int64_t expiry)
{
	int slot = bt_free_slot();
	struct btimer *b;
	if (slot < 0)
		return;
	b = &BT[slot];
	b->t = malloc(sizeof(*b->t));
	memset(b->t, 0xA5, sizeof(*b->t));
	IV_TIMER_INIT(b->t);
	b->t->expires.tv_sec = expiry / 1000000000LL;
	b->t->expires.tv_nsec = expiry % 1000000000LL;
	b->t->cookie = b;
	b->t->handler = h_btimer;
	b->expiry = expiry;
	b->reg_seq = ++SEQ;
	b->owner = (int)(th - RT);
	b->state = 1;
	bt_index_add(slot);
	iv_timer_register(b->t);
	bt_registered++;
}

static void bt_unregister(int slot)
{
	struct btimer *b = &BT[slot];
	iv_timer_unregister(b->t);
	b->state = 0;
	bt_index_del(slot);
	note_freed(b->t, sizeof(*b->t));
	free(b->t);
	b->t = NULL;
	bt_unregistered++;
	SEQ++;
}

/* OP_BULK: d = kind, a = count, b = span / mode, c = seed
 *   kind 0: register a timers with expiries in [now, now + b], quantised so that many keys are equal
 *   kind 1: unregister a victims; mode b: 0 random, 1 newest, 2 oldest, 3 smallest expiry, 4 largest expiry,
 *           5 one of the four newest
 *   kind 2: register a timers that are already due (past / zero / now) */
static int bulk_op(struct rthr *th, const struct pop *op)
{
	long i, n = (long)op->a;
	int64_t now;
	int t;

	if (th == NULL || !th->inited)
		return 0;
	t = (int)(th - RT);
	if (BT == NULL) {
		BT = calloc(BT_MAX, sizeof(*BT));
		bt_armed = calloc(BT_MAX, sizeof(*bt_armed));
	}
	bt_rng ^= (uint64_t)op->c * 0x9e3779b97f4a7c15ULL;
	iv_validate_now();
	now = (int64_t)iv_now.tv_sec * 1000000000LL + iv_now.tv_nsec;
	simk_log(101, OP_BULK, op->d * 1000000 + n);
	switch ((int)op->d) {
	case 0: {
		int64_t span = op->b > 0 ? op->b : 1, q = span / 16 > 0 ? span / 16 : 1;
		for (i = 0; i < n && bt_narmed < BT_MAX - 1; i++) {
			int64_t e = now + (int64_t)(bt_rnd() % (uint64_t)span);
			if (bt_rnd() % 3 == 0)
				e = now + ((e - now) / q) * q;
			bt_register(th, e);
		}
		break;
	}
	case 1:
		for (i = 0; i < n && bt_narmed > 0; i++) {
			int k, pick = -1, mode = (int)op->b;
			if (mode == 0) {
				pick = bt_armed[bt_rnd() % (uint64_t)bt_narmed];
			} else if (mode == 5) {
				/* one of the four most recently armed timers (cancelling a fresh time-out) */
				int best[4] = { -1, -1, -1, -1 }, nb = 0, j;
				for (k = 0; k < bt_narmed; k++) {
					int c = bt_armed[k];
					for (j = 0; j < 4; j++)
						if (best[j] < 0 || BT[c].reg_seq > BT[best[j]].reg_seq) {
							int m;
							for (m = 3; m > j; m--)
								best[m] = best[m - 1];
							best[j] = c;
							break;
						}
				}
				while (nb < 4 && best[nb] >= 0)
					nb++;
				pick = best[bt_rnd() % (uint64_t)nb];
			} else {
				for (k = 0; k < bt_narmed; k++) {
					struct btimer *b = &BT[bt_armed[k]], *p = pick >= 0 ? &BT[pick] : NULL;
					if (p == NULL ||
					    (mode == 1 && b->reg_seq > p->reg_seq) || (mode == 2 && b->reg_seq < p->reg_seq) ||
					    (mode == 3 && b->expiry < p->expiry) || (mode == 4 && b->expiry > p->expiry))
						pick = bt_armed[k];
				}
			}
			if (pick < 0 || BT[pick].owner != t)
				break;
			if (th->have_clock && BT[pick].expiry <= th->last_clock && th->depth == 0 && th->last_kind == K_TIMER)
				PROBE[PR_UNREG_EXPIRED_TIMER]++;
			bt_unregister(pick);
		}
		break;
	case 2:
		for (i = 0; i < n && bt_narmed < BT_MAX - 1; i++) {
			uint64_t r = bt_rnd() % 4;
			bt_register(th, r == 0 ? 0 : r == 1 ? 1 : r == 2 ? now : now - (int64_t)(bt_rnd() % 1000000000ULL));
		}
		break;
	}
	if (bt_narmed >= 128)
		PROBE[PR_TIMER_MANY]++;
	if (bt_peak > 16384)
		PROBE[PR_RADIX_CROSS]++;
	return 1;
}

static void bulk_wait_block(struct rthr *th)
{
	int i, t = (int)(th - RT);
	bt_round_close();
	if (!th->have_clock)
		return;
	for (i = 0; i < bt_narmed; i++) {
		struct btimer *b = &BT[bt_armed[i]];
		if (b->owner == t && b->expiry <= th->last_clock) {
			viol("C07.block_with_due", "thread %d blocks in the kernel although bulk timer %d (expiry %" PRId64 ") is due by the loop's own clock %" PRId64, t, bt_armed[i], b->expiry, th->last_clock);
			viol("C05.independence", "bulk timer %d is due but the loop blocks", bt_armed[i]);
			return;
		}
	}
}

static void bulk_time_advance(int64_t to)
{
	int t, i;
	for (t = 0; t < PL->nthr; t++) {
		struct rthr *th = &RT[t];
		int64_t t0, s, minexp = INT64_MAX;
		int which = -1;
		if (PL->thr[t].kind != 'L' || !th->in_main || !simk_thread_blocked_in_wait(th->sim))
			continue;
		for (i = 0; i < bt_narmed; i++)
			if (BT[bt_armed[i]].owner == t && BT[bt_armed[i]].expiry < minexp) {
				minexp = BT[bt_armed[i]].expiry;
				which = bt_armed[i];
			}
		if (which < 0)
			continue;
		t0 = simk_thread_wait_t0(th->sim);
		s = th->have_clock ? t0 - th->clock_at_wait : 0;
		if (s < 0)
			s = 0;
		if (to > (minexp > t0 ? minexp : t0) + s + 1000000 - 1) {
			viol("C04.oversleep", "thread %d stays blocked until at least %" PRId64 " although bulk timer %d expires at %" PRId64 " (wait entered at %" PRId64 ")", t, to, which, minexp, t0);
			viol("C05.independence", "bulk timer %d: the loop oversleeps its expiry", which);
			return;
		}
	}
}

static void bulk_teardown(struct rthr *th)
{
	int t = (int)(th - RT), i;
	bt_round_close();
	for (i = bt_narmed - 1; i >= 0; i--)
		if (i < bt_narmed && BT[bt_armed[i]].owner == t)
			bt_unregister(bt_armed[i]);
}

static int bulk_live(struct rthr *th)
{
	int t = (int)(th - RT), i, n = 0;
	for (i = 0; i < bt_narmed; i++)
		if (BT[bt_armed[i]].owner == t)
			n++;
	return n;
}

/* =====================================================================================
 * dispatch (pump and inotify are added in ext4.c)
 * ===================================================================================== */
int ext3_live(int id) { return ext4_live(id); }
int ext3_reg(struct rthr *th, int id, const struct pop *op) { return ext4_reg(th, id, op); }
int ext3_unreg(struct rthr *th, int id, int keep) { return ext4_unreg(th, id, keep); }

int ext3_op(struct rthr *th, const struct pop *op)
{
	if (op->op == OP_BULK) {
		int r = bulk_op(th, op);
		if (th != NULL)
			th->ext_live = bulk_live(th);
		return r;
	}
	return ext4_op(th, op);
}

void ext3_cb(struct rthr *th, int id, int kind, int band, int64_t x1, int64_t x2) { ext4_cb(th, id, kind, band, x1, x2); }
void ext3_cb_exit(struct rthr *th, int id, int kind)
{
	if (BT != NULL && th != NULL)
		th->ext_live = bulk_live(th);
	ext4_cb_exit(th, id, kind);
}
int ext3_foreign_thread_ok(int id, int kind) { return ext4_foreign_thread_ok(id, kind); }
int ext3_nesting_ok(int kind, int outer_kind) { return ext4_nesting_ok(kind, outer_kind); }
int ext3_stale_ok(int id, int kind, int band) { return ext4_stale_ok(id, kind, band); }

void ext3_wait_block(struct rthr *th)
{
	if (BT != NULL) {
		th->ext_live = bulk_live(th);
		bulk_wait_block(th);
	}
	ext4_wait_block(th);
}
void ext3_wait_enter(struct rthr *th)
{
	if (BT != NULL)
		th->ext_live = bulk_live(th);
}
void ext3_time_advance(int64_t to)
{
	if (BT != NULL)
		bulk_time_advance(to);
}
const char *ext3_uaf_prop(void) { return "C01.uaf"; }

void ext3_teardown(struct rthr *th)
{
	if (BT != NULL) {
		bulk_teardown(th);
		th->ext_live = 0;
	}
	ext4_teardown(th);
}

void ext3_post_main(struct rthr *th)
{
	if (BT != NULL) {
		bulk_teardown(th);
		th->ext_live = 0;
	}
	ext4_post_main(th);
}
void ext3_install_obs(void) { ext4_install_obs(); }
void ext3_run_begin(void)
{
	bt_rng = PL->seed ^ 0xb01dface;
	ext4_run_begin();
}

void ext3_obligations(void)
{
	int i;
	bt_round_close();
	for (i = 0; i < bt_narmed; i++) {
		struct btimer *b = &BT[bt_armed[i]];
		if (RT[b->owner].in_main) {
			viol("C04.oversleep", "quiescence: bulk timer %d (expiry %" PRId64 ", now %" PRId64 ") is armed but its thread sleeps without any deadline", bt_armed[i], b->expiry, simk_now());
			viol("C05.independence", "quiescence: bulk timer %d never fired", bt_armed[i]);
			break;
		}
	}
	ext4_obligations();
}

void ext3_end_of_run(int all_exited) { ext4_end_of_run(all_exited); }
