/* ext3.c -- iv_fd_pump (C17) and iv_inotify (C20) */
#define _GNU_SOURCE
#include <stdlib.h>
#include <string.h>
#include "engine.h"
#include "ext.h"

int ext3_live(int id) { (void)id; return 0; }
int ext3_reg(struct rthr *th, int id, const struct pop *op) { (void)th; (void)id; (void)op; return 0; }
int ext3_unreg(struct rthr *th, int id, int keep) { (void)th; (void)id; (void)keep; return 0; }
int ext3_op(struct rthr *th, const struct pop *op) { (void)th; (void)op; return 0; }
void ext3_cb(struct rthr *th, int id, int kind, int band, int64_t x1, int64_t x2) { (void)th; (void)id; (void)kind; (void)band; (void)x1; (void)x2; }
void ext3_cb_exit(struct rthr *th, int id, int kind) { (void)th; (void)id; (void)kind; }
int ext3_foreign_thread_ok(int id, int kind) { (void)id; (void)kind; return 0; }
int ext3_nesting_ok(int kind, int outer_kind) { (void)kind; (void)outer_kind; return 0; }
int ext3_stale_ok(int id, int kind, int band) { (void)id; (void)kind; (void)band; return 0; }
void ext3_wait_block(struct rthr *th) { (void)th; }
const char *ext3_uaf_prop(void) { return "C01.uaf"; }
void ext3_teardown(struct rthr *th) { (void)th; }
void ext3_post_main(struct rthr *th) { (void)th; }
void ext3_install_obs(void) { }
void ext3_run_begin(void) { }
void ext3_obligations(void) { }
void ext3_end_of_run(int all_exited) { (void)all_exited; }
