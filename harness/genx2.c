/* genx2.c -- generators: children / popen / pools / threads / pump / inotify / timers-bulk */
#define _GNU_SOURCE
#include <errno.h>
#include <signal.h>
#include <string.h>
#include "hz.h"

int gx_R(int n);
int gx_P(int pct);
int gx_add_obj(int kind, int owner);
struct pop *gx_add_op(int ctx, int ctxid, int when, int op, int64_t d, int64_t a, int64_t b, int64_t c);
void gx_add_fault(int site, int tid, int k, int sticky, int err, int mode, int64_t param);
void gx_common_cfg(int n);
void gx_absent(int pct);
void gx_eintr(int nloops, int pct);
void gx_regfail(void);
int64_t gx_delta(void);
uint64_t gx_u64(void);

#define R gx_R
#define P gx_P
static struct plan *G;

#define SEC 1000000000LL
#define MS 1000000LL

static void mk_threads(int nloops, int ndrv, int cycles_pct, int td_pct)
{
	int t;
	G->nthr = nloops + ndrv;
	for (t = 0; t < nloops; t++) {
		struct pthr *pt = &G->thr[t];
		pt->kind = 'L';
		pt->cycles = P(cycles_pct) ? 2 : 1;
		pt->exitmode = P(25);
		pt->deinit = !P(20);
		pt->td = P(td_pct);
	}
	for (; t < G->nthr; t++) {
		G->thr[t].kind = 'D';
		G->thr[t].cycles = 1;
	}
}

static int mk_child(void)
{
	static const int64_t exits[] = { 0, 0, 1000, MS, 500 * MS, SEC, 3 * SEC, 7 * SEC, 11 * SEC, 26 * SEC, 40 * SEC, -1, -1 };
	static const int64_t tdel[] = { 0, 0, 0, MS, 2 * SEC, 6 * SEC };
	int c = gx_add_obj(K_CHILD, -1), r = R(100);
	struct pobj *po = &G->obj[c];
	po->p[0] = exits[R(13)];
	po->p[1] = P(70) ? (R(4) << 8) : (P(50) ? SIGKILL : SIGSEGV);	/* wait status when it ends by itself */
	po->p[2] = r < 50 ? 0 : r < 75 ? 1 : 2;
	po->p[3] = 1 + R(7);
	po->p[4] = tdel[R(6)];
	po->p[5] = P(25) ? 1 + R(2) : 0;
	po->p[6] = (1 + R(2000)) * MS;
	po->p[7] = (1 + R(3000)) * MS;
	return c;
}

/* ---- C11: children and wait interests ------------------------------------------------ */
static void gen_wait(int tier)
{
	int nloops = 1 + (P(55) ? R(3) : 0), ndrv = P(65), t, i, nw = 0, waits[64], nchild = 0, childs[64], big = tier > 0;
	static const int sigs[] = { SIGTERM, SIGTERM, SIGKILL, SIGSTOP, SIGCONT, SIGUSR1 };

	gx_common_cfg(nloops + ndrv);
	G->cfg.yield_cost_ns = 0;
	mk_threads(nloops, ndrv, 10, 90);
	for (t = 0; t < nloops; t++) {
		int n = 1 + R(big ? 6 : 4), tm;
		for (i = 0; i < n && nw < 60; i++) {
			int c = mk_child(), w = gx_add_obj(K_WAIT, t);
			childs[nchild++] = c;
			waits[nw++] = w;
			G->obj[w].p[0] = P(75) ? 0 : 1;
			G->obj[w].p[1] = c;
			if (G->obj[w].p[0] == 1)
				gx_add_op(CTX_SETUP, P(70) ? t : R(nloops), 0, OP_SPAWN, c, 0, 0, 0);
			if (P(85))
				gx_add_op(CTX_SETUP, t, 0, OP_REG, w, 0, 0, 0);
		}
		/* strangers */
		n = R(4);
		for (i = 0; i < n; i++) {
			int c = mk_child();
			childs[nchild++] = c;
			if (P(60))
				gx_add_op(CTX_SETUP, t, 0, OP_SPAWN, c, 0, 0, 0);
			else if (ndrv)
				gx_add_op(CTX_DRV, nloops, 0, OP_SPAWN, c, 0, 0, 0);
		}
		/* timers that kill / register / spawn later */
		n = 1 + R(3);
		for (i = 0; i < n; i++) {
			int k = 1 + R(3);
			tm = gx_add_obj(K_TIMER, t);
			gx_add_op(CTX_SETUP, t, 0, OP_REG, tm, 0, gx_delta(), 0);
			while (k-- > 0 && nw > 0) {
				int r = R(100), w = waits[R(nw)];
				if (r < 45)
					gx_add_op(CTX_CB, tm, 0, OP_WKILL, w, sigs[R(6)], 0, 0);
				else if (r < 60)
					gx_add_op(CTX_CB, tm, 0, OP_REG, w, 0, 0, 0);
				else if (r < 75)
					gx_add_op(CTX_CB, tm, 0, OP_UNREG, w, 0, 0, 0);
				else if (r < 90 && nchild)
					gx_add_op(CTX_CB, tm, 0, OP_SPAWN, childs[R(nchild)], 0, 0, 0);
				else
					gx_add_op(CTX_CB, tm, 0, OP_REG, tm, 0, gx_delta(), 0);
			}
		}
	}
	for (i = 0; i < nw; i++) {
		int w = waits[i], na = R(4), owner = G->obj[w].owner, j;
		if (P(55))	/* the usual handler: forget the child once it is gone */
			gx_add_op(CTX_CB, w, 1 + R(3), OP_UNREG, w, 0, 0, 0);
		while (na-- > 0) {
			int when = P(30) ? 0 : 1 + R(3), r = R(100), cand[64], nc = 0;
			for (j = 0; j < nw; j++)
				if (G->obj[waits[j]].owner == owner)
					cand[nc++] = waits[j];
			if (r < 30)
				gx_add_op(CTX_CB, w, when, OP_UNREG, P(50) ? w : cand[R(nc)], 0, 0, 0);
			else if (r < 50)
				gx_add_op(CTX_CB, w, when, OP_REG, cand[R(nc)], 0, 0, 0);
			else if (r < 80)
				gx_add_op(CTX_CB, w, when, OP_WKILL, P(60) ? w : cand[R(nc)], sigs[R(6)], 0, 0);
			else if (r < 92 && nchild)
				gx_add_op(CTX_CB, w, when, OP_SPAWN, childs[R(nchild)], 0, 0, 0);
			else
				gx_add_op(CTX_CB, w, when, OP_YIELD, 0, 0, 0, 0);
		}
	}
	if (ndrv) {
		int len = 2 + R(10);
		while (len-- > 0) {
			int r = R(100);
			if (r < 35)
				gx_add_op(CTX_DRV, nloops, 0, OP_SLEEP, 0, gx_delta(), 0, 0);
			else if (r < 55 && nchild)
				gx_add_op(CTX_DRV, nloops, 0, OP_SPAWN, childs[R(nchild)], 0, 0, 0);
			else if (nchild) {
				/* several state changes of one child in quick succession, each of which may be reaped by
				 * another thread before the interest's owner gets to run */
				int c = childs[R(nchild)], k = 1 + R(4);
				while (k-- > 0) {
					gx_add_op(CTX_DRV, nloops, 0, OP_TKILL, c, sigs[R(6)], 0, 0);
					if (P(60))
						gx_add_op(CTX_DRV, nloops, 0, OP_YIELD, 0, 0, 0, 0);
				}
			}
		}
	}
	/* kill a child and drop its interest in the same callback, while another thread does the reaping */
	if (nloops >= 2 && nw > 0 && P(35)) {
		int w = waits[R(nw)], owner = G->obj[w].owner, tm = gx_add_obj(K_TIMER, owner), y = R(3);
		if (tm >= 0 && G->obj[w].p[0] == 0) {
			gx_add_op(CTX_SETUP, owner, 0, OP_REG, tm, 0, gx_delta(), 0);
			gx_add_op(CTX_CB, tm, 1, OP_WKILL, w, P(70) ? SIGKILL : SIGTERM, 0, 0);
			while (y-- > 0)
				gx_add_op(CTX_CB, tm, 1, OP_YIELD, 0, 0, 0, 0);
			gx_add_op(CTX_CB, tm, 1, OP_UNREG, w, 0, 0, 0);
		}
	}
	/* several statuses of one child queued for its interest before the owner runs (another thread
	 * reaps), while the handler unregisters a sibling interest on the first of them */
	if (nloops >= 2 && ndrv && P(40)) {
		int owner = R(nloops), ca = mk_child(), cb = mk_child(), a = gx_add_obj(K_WAIT, owner), b = gx_add_obj(K_WAIT, owner), k;
		if (a >= 0 && b >= 0) {
			G->obj[ca].p[0] = -1; G->obj[ca].p[2] = 1; G->obj[ca].p[5] = 0;
			G->obj[cb].p[0] = -1; G->obj[cb].p[5] = 0;
			G->obj[a].p[0] = 0; G->obj[a].p[1] = ca;
			G->obj[b].p[0] = 0; G->obj[b].p[1] = cb;
			gx_add_op(CTX_SETUP, owner, 0, OP_REG, a, 0, 0, 0);
			gx_add_op(CTX_SETUP, owner, 0, OP_REG, b, 0, 0, 0);
			gx_add_op(CTX_CB, a, 1 + R(2), OP_UNREG, P(80) ? b : a, 0, 0, 0);
			gx_add_op(CTX_DRV, nloops, 0, OP_SLEEP, 0, gx_delta(), 0, 0);
			for (k = 0; k < 3; k++) {
				static const int seq[3] = { SIGSTOP, SIGCONT, SIGKILL };
				int y = R(4);
				gx_add_op(CTX_DRV, nloops, 0, OP_TKILL, ca, seq[k], 0, 0);
				while (y-- > 0)
					gx_add_op(CTX_DRV, nloops, 0, OP_YIELD, 0, 0, 0, 0);
			}
		}
	}
	gx_absent(8);
	gx_eintr(nloops, 10);
	gx_regfail();
	/* a driver (an application thread that forks children of its own) that keeps every signal blocked */
	if (ndrv && P(30))
		G->thr[nloops].sigmask_all = 1;
}

/* ---- C19: popen ------------------------------------------------------------------------- */
static void gen_popen(int tier)
{
	int nloops = 1 + (P(20) ? 1 : 0), t, i;
	static const int64_t closes[] = { 0, 0, 1000, MS, 999 * MS, 3 * SEC, 5 * SEC, 12 * SEC, 30 * SEC, 51 * SEC };

	(void)tier;
	gx_common_cfg(nloops);
	G->cfg.yield_cost_ns = 0;
	mk_threads(nloops, 0, 10, 60);
	for (t = 0; t < nloops; t++) {
		int n = 1 + R(3);
		for (i = 0; i < n; i++) {
			int c = mk_child(), p = gx_add_obj(K_POPEN, t), r = R(100), tm;
			G->obj[c].p[5] = P(15) ? 1 : 0;
			G->obj[p].p[0] = P(50);
			G->obj[p].p[1] = c;
			G->obj[p].p[2] = P(12);	/* a really forked and exec'd child: checks the wiring of its standard streams */
			if (r < 70) {
				gx_add_op(CTX_SETUP, t, 0, OP_REG, p, 0, 0, 0);
			}
			tm = gx_add_obj(K_TIMER, t);
			gx_add_op(CTX_SETUP, t, 0, OP_REG, tm, 0, closes[R(10)], 0);
			if (r >= 70)
				gx_add_op(CTX_CB, tm, 1, OP_REG, p, 0, 0, 0);
			if (P(80)) {
				if (r >= 70 || P(30)) {
					/* close later, from a second firing of the timer */
					gx_add_op(CTX_CB, tm, 1, OP_REG, tm, 0, closes[R(10)], 0);
					gx_add_op(CTX_CB, tm, 2, OP_PCLOSE, p, 0, 0, 0);
				} else {
					gx_add_op(CTX_CB, tm, 1, OP_PCLOSE, p, 0, 0, 0);
				}
			} else if (P(50)) {
				gx_add_op(CTX_SETUP, t, 0, OP_PCLOSE, p, 0, 0, 0);
			}
		}
	}
	gx_absent(8);
	gx_eintr(nloops, 15);
	gx_regfail();
}

/* ---- C12 / C13: work pools and iv_thread ---------------------------------------------------- */
static void gen_pool(const char *prop, int tier)
{
	int nloops = 1 + (P(25) ? 1 : 0), t, i, big = tier > 0, c13 = !strcmp(prop, "C13");
	static const int64_t durs[] = { 0, 0, 1000, MS, 100 * MS, SEC, SEC, 5 * SEC, 9999999999LL, 10 * SEC, 10000000001LL, 20 * SEC };
	static const int64_t whens[] = { 0, 1000, MS, SEC, 9 * SEC, 9999999000LL, 9999999999LL, 10 * SEC, 10000000001LL, 10000001000LL,
					 10001 * MS, 11 * SEC, 19999999999LL, 20 * SEC, 20000000001LL, 25 * SEC };

	gx_common_cfg(nloops + 2);
	G->cfg.yield_cost_ns = P(85) ? 0 : 1;
	mk_threads(nloops, 0, 10, c13 ? 40 : 85);
	for (t = 0; t < nloops; t++) {
		int npools = 1 + (P(25) ? 1 : 0), pi, items[64], nitems = 0, pools[2];
		for (pi = 0; pi < npools; pi++) {
			int p = gx_add_obj(K_POOL, t), n = 1 + R(big ? 20 : 10);
			pools[pi] = p;
			G->obj[p].p[0] = 1 + R(4);
			G->obj[p].p[1] = !P(12);
			gx_add_op(CTX_SETUP, t, 0, OP_REG, p, 0, 0, 0);
			for (i = 0; i < n && nitems < 60; i++) {
				int it = gx_add_obj(K_ITEM, t);
				items[nitems++] = it;
				G->obj[it].p[0] = P(8) ? -1 : p;
				G->obj[it].p[1] = durs[R(12)];
				G->obj[it].p[3] = P(40);
				if (P(55))
					gx_add_op(CTX_SETUP, t, 0, OP_SUBMIT, it, 0, 0, 0);
			}
		}
		/* continuations and follow-up submissions */
		for (i = 0; i < nitems; i++) {
			int it = items[i];
			if (P(20)) {
				int tgt = items[R(nitems)];
				if (tgt != it && G->obj[tgt].p[0] == G->obj[it].p[0]) {
					G->obj[it].p[2] = tgt + 1;
					G->obj[it].p[4] = P(35);	/* does not return before its continuation runs */
				}
			}
			if (P(35))
				gx_add_op(CTX_CB, it, P(50) ? 0 : 1, OP_SUBMIT, items[R(nitems)], 0, 0, 0);
			if (P(c13 ? 18 : 6))
				gx_add_op(CTX_CB, it, 1, OP_PUT, pools[R(npools)], 0, 0, 0);
			if (P(5))
				gx_add_op(CTX_CB, it, 1, OP_QUIT, 0, 0, 0, 0);
		}
		/* timers: late submissions around the idle time-out, puts at arbitrary moments */
		{
			int n = 1 + R(4);
			for (i = 0; i < n; i++) {
				int tm = gx_add_obj(K_TIMER, t), k = 1 + R(3);
				gx_add_op(CTX_SETUP, t, 0, OP_REG, tm, 1, whens[R(16)], 0);
				while (k-- > 0)
					gx_add_op(CTX_CB, tm, 0, OP_SUBMIT, items[R(nitems)], 0, 0, 0);
				if (P(c13 ? 55 : 20))
					gx_add_op(CTX_CB, tm, 0, OP_PUT, pools[R(npools)], 0, 0, 0);
				if (P(25))
					gx_add_op(CTX_CB, tm, 1, OP_REG, tm, 1, whens[R(16)], 0);
			}
		}
		if (P(15)) {
			/* a work function that waits for its continuation, and the owner releasing the pool at the
			 * very moment the continuation is submitted: the pool still owes that continuation a worker */
			static const int64_t ds[] = { 1000, MS, 100 * MS, SEC };
			int p = gx_add_obj(K_POOL, t), a = gx_add_obj(K_ITEM, t), b = gx_add_obj(K_ITEM, t), tm = gx_add_obj(K_TIMER, t);
			int64_t d = ds[R(4)];
			if (p >= 0 && a >= 0 && b >= 0 && tm >= 0) {
				G->obj[p].p[0] = 2 + R(3);
				G->obj[p].p[1] = !P(12);
				G->obj[a].p[0] = p; G->obj[a].p[1] = d; G->obj[a].p[2] = b + 1; G->obj[a].p[4] = 1;
				G->obj[b].p[0] = p; G->obj[b].p[1] = P(50) ? 0 : 1000;
				gx_add_op(CTX_SETUP, t, 0, OP_REG, p, 0, 0, 0);
				gx_add_op(CTX_SETUP, t, 0, OP_SUBMIT, a, 0, 0, 0);
				gx_add_op(CTX_SETUP, t, 0, OP_REG, tm, 1, d + (P(60) ? 0 : P(50) ? 1 : 1000), 0);
				gx_add_op(CTX_CB, tm, 0, OP_PUT, p, 0, 0, 0);
			}
		}
		if (P(c13 ? 25 : 8))
			gx_add_op(CTX_SETUP, t, 0, OP_PUT, pools[R(npools)], 0, 0, 0);
		/* iv_thread children */
		if (P(c13 ? 70 : 20)) {
			int n = 1 + R(3);
			for (i = 0; i < n; i++) {
				int th = gx_add_obj(K_IVTHREAD, t);
				G->obj[th].p[0] = P(40);
				G->obj[th].p[1] = R(3);
				G->obj[th].p[2] = P(30) ? 0 : durs[R(12)];
				if (P(70))
					gx_add_op(CTX_SETUP, t, 0, OP_REG, th, 0, 0, 0);
				else if (nitems)
					gx_add_op(CTX_CB, items[R(nitems)], 1, OP_REG, th, 0, 0, 0);
			}
		}
	}
	gx_absent(8);
	gx_eintr(nloops, 8);
	gx_regfail();
}

int gen_ext3(struct plan *p, const char *scenario, const char *prop, int tier);

int gen_ext2(struct plan *p, const char *scenario, const char *prop, int tier)
{
	G = p;
	if (!strcmp(scenario, "wait")) {
		gen_wait(tier);
		return 0;
	}
	if (!strcmp(scenario, "popen")) {
		gen_popen(tier);
		return 0;
	}
	if (!strcmp(scenario, "pool")) {
		gen_pool(prop, tier);
		return 0;
	}
	return gen_ext3(p, scenario, prop, tier);
}
