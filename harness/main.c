/*
 * main.c -- ivsim entry points:
 *   ivsim gen   <scenario> <prop> <seed> [tier]          print the generated plan
 *   ivsim exec  <planfile> [-v]                         run one plan, print the result
 *   ivsim batch <scenario> <prop> <tier> <base> <start> <count> <outdir> [seconds]
 *                                                       run plans for seed indices, one line per run
 *   ivsim enum  <scenario> <prop> <tier> <base> <start> <count> <outdir> [seconds]
 *                                                       C15: per base plan, enumerate faults
 * Every run executes in a freshly forked child of this (never initialised) process.
 */
#define _GNU_SOURCE
#include <errno.h>
#include <fcntl.h>
#include <inttypes.h>
#include <signal.h>
#include <stdlib.h>
#include <string.h>
#include <sys/personality.h>
#include <sys/stat.h>
#include <sys/wait.h>
#include <time.h>
#include <unistd.h>
#include "hz.h"

const char *__asan_default_options(void) __attribute__((used));
const char *__asan_default_options(void)
{
	return "exitcode=77:detect_leaks=0:abort_on_error=0:handle_abort=0:allocator_may_return_null=1:quarantine_size_mb=64:detect_stack_use_after_return=0";
}
const char *__tsan_default_options(void) __attribute__((used));
const char *__tsan_default_options(void)
{
	return "exitcode=66:halt_on_error=1:report_thread_leaks=0:report_signal_unsafe=0:history_size=4:second_deadlock_stack=1";
}
const char *__ubsan_default_options(void) __attribute__((used));
const char *__ubsan_default_options(void)
{
	return "print_stacktrace=1";
}

static uint64_t mix_seed(uint64_t base, const char *prop, uint64_t i)
{
	uint64_t s = base * 0x9e3779b97f4a7c15ULL;
	const char *c;
	for (c = prop; *c; c++)
		s = (s ^ (uint64_t)*c) * 0x100000001b3ULL;
	s ^= i * 0xd6e8feb86659fd93ULL;
	return sm64(&s) >> 1;
}

struct outcome {
	int	status;		/* 0 ok, 1 violation, 2 inconclusive, 4 crash */
	int	exitcode, sig;
	char	text[1 << 17];
	double	secs;
};

static char tsan_dir[256];

static void run_plan(const struct plan *p, struct outcome *o, int verbose)
{
	struct simk_shared *sh = simk_shared();
	struct timespec t0, t1;
	pid_t pid;
	int st;

	clock_gettime(CLOCK_MONOTONIC, &t0);
	simk_shared_reset();
	fflush(stdout);
	fflush(stderr);
	pid = fork();
	if (pid < 0) {
		perror("fork");
		exit(2);
	}
	if (pid == 0) {
		/* identical standard input and error in every mode, and not the null device, so that a
		 * child which merely inherits them can be told from one whose streams were redirected */
		int nfd = open("/dev/zero", O_RDWR);
		if (nfd > 0) {
			dup2(nfd, 0);
			if (!verbose)
				dup2(nfd, 2);
			close(nfd);
		}
		engine_run(p, -1, verbose);
		_exit(99);
	}
	while (waitpid(pid, &st, 0) < 0 && errno == EINTR)
		;
	{
		/* scratch directory of an inotify run */
		char cmd[128];
		snprintf(cmd, sizeof(cmd), "/dev/shm/ivsim-ino-%d", (int)pid);
		if (access(cmd, F_OK) == 0) {
			snprintf(cmd, sizeof(cmd), "rm -rf /dev/shm/ivsim-ino-%d", (int)pid);
			if (system(cmd) != 0)
				perror("rm");
		}
	}
	clock_gettime(CLOCK_MONOTONIC, &t1);
	o->secs = (double)(t1.tv_sec - t0.tv_sec) + (double)(t1.tv_nsec - t0.tv_nsec) / 1e9;
	o->exitcode = WIFEXITED(st) ? WEXITSTATUS(st) : -1;
	o->sig = WIFSIGNALED(st) ? WTERMSIG(st) : 0;
	o->text[0] = 0;
	if (sh->result_len > 0) {
		memcpy(o->text, sh->result, (size_t)sh->result_len);
		o->text[sh->result_len] = 0;
		if (sscanf(o->text, "R status=%d", &o->status) != 1)
			o->status = 4;
		if (o->exitcode != 0 && o->exitcode != 3 && o->status == 0)
			o->status = 4;
	} else {
		o->status = 4;
	}
	if (o->status == 4) {
		/* the child died without writing a result: classify from the wait status */
		char extra[600] = "";
		const char *id = "ANY.crash";
		if (o->exitcode == 66) {
			/* ThreadSanitizer report: pick up its summary */
			char path[300], line[400];
			FILE *f;
			id = "C14.race";
			snprintf(path, sizeof(path), "%s/tsan.%d", tsan_dir, (int)pid);
			f = fopen(path, "r");
			if (f) {
				while (fgets(line, sizeof(line), f))
					if (strstr(line, "SUMMARY:") || strstr(line, "Location is global")) {
						size_t l = strlen(line);
						if (l && line[l - 1] == '\n')
							line[l - 1] = 0;
						strncat(extra, line, sizeof(extra) - strlen(extra) - 2);
						strcat(extra, " ");
					}
				fclose(f);
			}
		} else if (o->exitcode == 77) {
			id = "ANY.ub";
			snprintf(extra, sizeof(extra), "sanitizer abort (exit 77) without an ASan report: undefined behaviour caught by UBSan (signed overflow, bad shift, ...) or a nested report");
		} else if (o->sig == SIGALRM || o->sig == SIGPROF) {
			id = "ANY.hang";
			snprintf(extra, sizeof(extra), "watchdog: 25 s of CPU time (or 150 s of real time) used up without the run ending");
		} else {
			snprintf(extra, sizeof(extra), "child died: exit=%d signal=%d", o->exitcode, o->sig);
		}
		snprintf(o->text, sizeof(o->text),
			 "R status=1 hash=%016" PRIx64 " shash=%016" PRIx64 " steps=%ld switches=%ld advances=%ld vtime=%" PRId64 " decisions=%ld method=?\nV %s %s\nEND\n",
			 sh->loghash, sh->schedhash, sh->stats.steps, sh->stats.switches, sh->stats.advances,
			 sh->stats.vtime, sh->stats.decisions, id, extra);
		o->status = 1;
	}
	if (tsan_dir[0]) {
		char path[300];
		snprintf(path, sizeof(path), "%s/tsan.%d", tsan_dir, (int)pid);
		if (o->status != 1 || o->exitcode != 66)
			unlink(path);
	}
}

/* write plan + recorded decisions + expectation as a replay candidate */
static void write_replay(const struct plan *p, const struct outcome *o, const char *path)
{
	struct simk_shared *sh = simk_shared();
	struct plan q = *p;
	FILE *f = fopen(path, "w");
	const char *v, *l;
	uint64_t h = 0;

	if (!f)
		return;
	q.sched = malloc((size_t)sh->ndec + 1);
	memcpy(q.sched, (const void *)sh->dec, (size_t)sh->ndec);
	q.nsched = sh->ndec;
	v = strstr(o->text, "\nV ");
	q.expect[0] = 0;
	if (v)
		sscanf(v + 3, "%63s", q.expect);
	sscanf(o->text, "R status=%*d hash=%" SCNx64, &h);
	q.expect_hash = h;
	plan_print(&q, f);
	/* informational tail */
	for (l = o->text; l && *l; ) {
		const char *e = strchr(l, '\n');
		size_t n = e ? (size_t)(e - l) : strlen(l);
		if (l[0] == 'V' && l[1] == ' ')
			fprintf(f, "desc %.*s\n", (int)n - 2, l + 2);
		else if (l[0] == 'L' && l[1] == ' ')
			fprintf(f, "log %.*s\n", (int)n - 2, l + 2);
		l = e ? e + 1 : NULL;
	}
	fclose(f);
	free(q.sched);
}

static void print_oneline(const char *tag, long i, uint64_t seed, const struct outcome *o, const char *extra)
{
	const char *l;
	printf("%s i=%ld seed=%" PRIu64 " secs=%.4f %s", tag, i, seed, o->secs, extra);
	for (l = o->text; l && *l; ) {
		const char *e = strchr(l, '\n');
		size_t n = e ? (size_t)(e - l) : strlen(l);
		if (l[0] != 'L' && strncmp(l, "END", 3))
			printf(" | %.*s", (int)n, l);
		l = e ? e + 1 : NULL;
	}
	printf("\n");
	fflush(stdout);
}

/* Does this violating run count towards the batch's early stop?  With IVSIM_OWNER=<property> only
 * violations the running check owns do; runs that trip another property's oracle are still reported
 * (as notes) but do not cut the exploration short. */
static int counts_for_owner(const struct outcome *o)
{
	const char *own = getenv("IVSIM_OWNER"), *l;
	size_t n;

	if (own == NULL || !*own)
		return 1;
	n = strlen(own);
	for (l = o->text; l && *l; ) {
		if (l[0] == 'V' && l[1] == ' ') {
			const char *id = l + 2;
			if ((!strncmp(id, own, n) && id[n] == '.') || !strncmp(id, "ANY.", 4) || !strncmp(id, "SIM.", 4))
				return 1;
		}
		l = strchr(l, '\n');
		if (l)
			l++;
	}
	return 0;
}

static double now_s(void)
{
	struct timespec t;
	clock_gettime(CLOCK_MONOTONIC, &t);
	return (double)t.tv_sec + (double)t.tv_nsec / 1e9;
}

static struct plan PLN;	/* large: static */
static struct outcome OUT;

static int cmd_batch(int argc, char **argv, int enumerate)
{
	const char *scenario, *prop, *outdir;
	int tier;
	uint64_t base;
	long start, count, i, nviol = 0;
	double limit = 0, t0 = now_s();

	if (argc < 9) {
		fprintf(stderr, "usage: ivsim batch <scenario> <prop> <tier> <base> <start> <count> <outdir> [seconds]\n");
		return 2;
	}
	scenario = argv[2];
	prop = argv[3];
	tier = atoi(argv[4]);
	base = strtoull(argv[5], NULL, 0);
	start = atol(argv[6]);
	count = atol(argv[7]);
	outdir = argv[8];
	if (argc > 9)
		limit = atof(argv[9]);
	snprintf(tsan_dir, sizeof(tsan_dir), "%s", outdir);

	for (i = start; i < start + count; i++) {
		uint64_t seed = mix_seed(base, prop, (uint64_t)i);
		char path[400];

		if (limit > 0 && now_s() - t0 > limit)
			break;
		if (gen_plan(&PLN, scenario, prop, seed, tier) < 0) {
			fprintf(stderr, "unknown scenario %s\n", scenario);
			return 2;
		}
		if (!enumerate) {
			run_plan(&PLN, &OUT, 0);
			if (OUT.status == 1) {
				snprintf(path, sizeof(path), "%s/cand-%s-%" PRIu64 ".plan", outdir, prop, seed);
				write_replay(&PLN, &OUT, path);
				nviol += counts_for_owner(&OUT);
			}
			print_oneline("RUN", i, seed, &OUT, "");
			if (nviol >= 20)
				break;
		} else {
			/* C15: base run, then the k-th wait of every loop thread fails with EINTR for every k,
			 * and every optional facility is absent from call 1 / call k */
			long waits = 0, nw, k, variants = 0;
			char ex[128];
			int t, nloops = 0, basefaults;
			const char *wp;

			run_plan(&PLN, &OUT, 0);
			wp = strstr(OUT.text, " waits=");
			if (wp)
				sscanf(wp, " waits=%ld", &waits);
			print_oneline("RUN", i, seed, &OUT, "variant=base");
			if (OUT.status == 1) {
				snprintf(path, sizeof(path), "%s/cand-%s-%" PRIu64 "-base.plan", outdir, prop, seed);
				write_replay(&PLN, &OUT, path);
				nviol++;
				continue;
			}
			for (t = 0; t < PLN.nthr; t++)
				if (PLN.thr[t].kind == 'L')
					nloops++;
			basefaults = PLN.nfaults;
			nw = waits > 64 ? 64 : waits;
			for (t = 0; t < nloops && nviol < 20; t++)
				for (k = 1; k <= nw && nviol < 20; k++) {
					int mode;
					for (mode = 0; mode < 2; mode++) {
						struct simk_fault *f = &PLN.faults[basefaults];
						PLN.nfaults = basefaults + 1;
						memset(f, 0, sizeof(*f));
						f->site = FS_WAIT; f->tid = t + 1; f->k = (int)k; f->err = EINTR; f->mode = mode;
						run_plan(&PLN, &OUT, 0);
						variants++;
						snprintf(ex, sizeof(ex), "variant=eintr:t%d:k%ld:m%d", t, k, mode);
						print_oneline("RUN", i, seed, &OUT, ex);
						if (OUT.status == 1) {
							snprintf(path, sizeof(path), "%s/cand-%s-%" PRIu64 "-e%d-%ld-%d.plan", outdir, prop, seed, t, k, mode);
							write_replay(&PLN, &OUT, path);
							nviol++;
						}
						if (!strstr(OUT.text, " F 1=") && !strstr(OUT.text, "F 1="))
							break;	/* fault did not fire: this thread has fewer waits */
					}
				}
			/* the k-th read of the library's own wake-up descriptors (eventfd, pipe, inotify) in every loop
			 * thread is interrupted (EINTR) or finds nothing after all (EAGAIN) */
			for (t = 0; t < nloops && nviol < 20; t++) {
				int e;
				for (e = 0; e < 2 && nviol < 20; e++)
					for (k = 1; k <= 10 && nviol < 20; k++) {
						struct simk_fault *f = &PLN.faults[basefaults];
						PLN.nfaults = basefaults + 1;
						memset(f, 0, sizeof(*f));
						f->site = FS_LIBREAD; f->tid = t + 1; f->k = (int)k; f->err = e ? EAGAIN : EINTR;
						run_plan(&PLN, &OUT, 0);
						variants++;
						snprintf(ex, sizeof(ex), "variant=libread:t%d:k%ld:e%d", t, k, f->err);
						print_oneline("RUN", i, seed, &OUT, ex);
						if (OUT.status == 1) {
							snprintf(path, sizeof(path), "%s/cand-%s-%" PRIu64 "-r%d-%ld-%d.plan", outdir, prop, seed, t, k, e);
							write_replay(&PLN, &OUT, path);
							nviol++;
						}
						{
							char tag[24];
							const char *fl = strstr(OUT.text, "\nF");
							snprintf(tag, sizeof(tag), " %d=", FS_LIBREAD);
							if (fl == NULL || strstr(fl, tag) == NULL)
								break;
						}
					}
			}
			{
				/* optional facilities */
				static const struct { int site, err; } fac[] = {
					{ FS_PWAIT2, ENOSYS }, { FS_PWAIT2, EPERM }, { FS_PPOLL, ENOSYS },
					{ FS_EPOLL_CREATE1, ENOSYS }, { FS_TIMERFD_CREATE, ENOSYS },
					{ FS_EVENTFD2, EINVAL }, { FS_EVENTFD2, ENOSYS }, { FS_EVENTFD, ENOSYS },
					{ FS_PIPE2, ENOSYS }, { FS_SPLICE, EINVAL }, { FS_SPLICE, ENOSYS },
				};
				unsigned fi;
				for (fi = 0; fi < sizeof(fac) / sizeof(fac[0]) && nviol < 20; fi++) {
					long kmax = (fac[fi].site == FS_PWAIT2 || fac[fi].site == FS_PPOLL) ? (nw > 24 ? 24 : nw) : 10;
					for (k = 1; k <= kmax && nviol < 20; k++) {
						struct simk_fault *f = &PLN.faults[basefaults];
						char tag[24];
						PLN.nfaults = basefaults + 1;
						memset(f, 0, sizeof(*f));
						f->site = fac[fi].site; f->tid = -1; f->k = (int)k; f->sticky = 1; f->err = fac[fi].err;
						if (fac[fi].site == FS_EVENTFD) {
							/* old eventfd absent only matters when eventfd2 is absent too */
							struct simk_fault *g = &PLN.faults[basefaults + 1];
							PLN.nfaults = basefaults + 2;
							memset(g, 0, sizeof(*g));
							g->site = FS_EVENTFD2; g->tid = -1; g->k = 1; g->sticky = 1; g->err = ENOSYS;
						}
						run_plan(&PLN, &OUT, 0);
						variants++;
						snprintf(ex, sizeof(ex), "variant=absent:s%d:e%d:k%ld", fac[fi].site, fac[fi].err, k);
						print_oneline("RUN", i, seed, &OUT, ex);
						if (OUT.status == 1) {
							snprintf(path, sizeof(path), "%s/cand-%s-%" PRIu64 "-a%d-%d-%ld.plan", outdir, prop, seed, fac[fi].site, fac[fi].err, k);
							write_replay(&PLN, &OUT, path);
							nviol++;
						}
						/* stop once the facility is not called that often in this plan */
						snprintf(tag, sizeof(tag), " %d=", fac[fi].site);
						{
							const char *fl = strstr(OUT.text, "\nF");
							if (fl == NULL || strstr(fl, tag) == NULL)
								break;
						}
					}
				}
			}
			PLN.nfaults = basefaults;
			printf("ENUM i=%ld seed=%" PRIu64 " waits=%ld variants=%ld\n", i, seed, waits, variants);
			fflush(stdout);
		}
	}
	printf("DONE start=%ld next=%ld elapsed=%.2f\n", start, i, now_s() - t0);
	return 0;
}

int main(int argc, char **argv)
{
	/* identical address-space layout in every process: heap addresses can influence
	 * behaviour (iv_signal orders equal-priority interests by address) */
	if (getenv("IVSIM_NOASLR") == NULL) {
		int pers = personality(0xffffffff);
		if (pers >= 0 && !(pers & ADDR_NO_RANDOMIZE)) {
			personality(pers | ADDR_NO_RANDOMIZE);
			setenv("IVSIM_NOASLR", "1", 1);
			execv("/proc/self/exe", argv);
		}
	}
	setvbuf(stdout, NULL, _IOLBF, 0);
	signal(SIGPIPE, SIG_DFL);
	engine_global_init();

	if (argc >= 5 && !strcmp(argv[1], "gen")) {
		if (gen_plan(&PLN, argv[2], argv[3], strtoull(argv[4], NULL, 0), argc > 5 ? atoi(argv[5]) : 0) < 0) {
			fprintf(stderr, "unknown scenario\n");
			return 2;
		}
		plan_print(&PLN, stdout);
		return 0;
	}
	if (argc >= 3 && !strcmp(argv[1], "exec")) {
		char err[200];
		FILE *f = fopen(argv[2], "r");
		int verbose = argc > 3 && !strcmp(argv[3], "-v") ? 1 : argc > 3 && !strcmp(argv[3], "-vv") ? 2 : 0;
		const char *od = getenv("IVSIM_OUTDIR");
		if (!f) {
			perror(argv[2]);
			return 2;
		}
		if (plan_parse(&PLN, f, err, sizeof(err)) < 0) {
			fprintf(stderr, "%s: %s\n", argv[2], err);
			return 2;
		}
		fclose(f);
		snprintf(tsan_dir, sizeof(tsan_dir), "%s", od ? od : "");
		run_plan(&PLN, &OUT, verbose);
		fputs(OUT.text, stdout);
		if (argc > 4 && !strcmp(argv[3], "-o")) {
			/* re-record decisions into a new replay file */
			write_replay(&PLN, &OUT, argv[4]);
		}
		return OUT.status == 1 ? 1 : OUT.status == 0 ? 0 : 3;
	}
	if (argc >= 2 && !strcmp(argv[1], "batch"))
		return cmd_batch(argc, argv, 0);
	if (argc >= 2 && !strcmp(argv[1], "enum"))
		return cmd_batch(argc, argv, 1);
	fprintf(stderr, "usage: ivsim gen|exec|batch|enum ...\n");
	return 2;
}
