/* genx3.c -- generators: timer populations, pump, inotify */
#define _GNU_SOURCE
#include <string.h>
#include "hz.h"

int gx_R(int n);
int gx_P(int pct);
int gx_add_obj(int kind, int owner);
struct pop *gx_add_op(int ctx, int ctxid, int when, int op, int64_t d, int64_t a, int64_t b, int64_t c);
void gx_add_fault(int site, int tid, int k, int sticky, int err, int mode, int64_t param);
void gx_common_cfg(int n);
void gx_absent(int pct);
void gx_eintr(int nloops, int pct);
int64_t gx_delta(void);
uint64_t gx_u64(void);
#define R gx_R
#define P gx_P
#define SEC 1000000000LL
#define MS 1000000LL
static struct plan *G;

/* ---- C05: timer populations ---------------------------------------------------------------- */
static void gen_timers(int tier)
{
	int big = tier > 0, ctl, steps, k, pop = 0, small = P(35);
	int target_hi = small ? 6 + R(40) : big ? (P(50) ? 17000 + R(3000) : 200 + R(400)) : (P(85) ? 140 + R(260) : 16500 + R(600));
	int64_t span = (int64_t[]){ 1000, MS, 50 * MS, SEC, 30 * SEC }[R(5)];

	gx_common_cfg(1);
	G->cfg.yield_cost_ns = P(85) ? 0 : 1;
	G->cfg.max_steps = 3000000;
	G->nthr = 1;
	G->thr[0].kind = 'L';
	G->thr[0].cycles = P(10) ? 2 : 1;
	G->thr[0].deinit = !P(15);
	G->thr[0].exitmode = P(20);
	G->thr[0].td = 1;
	G->bulk_n = target_hi;

	/* the controller: a timer that performs one population step per firing and re-arms itself */
	ctl = gx_add_obj(K_TIMER, 0);
	G->obj[ctl].p[0] = 1;
	gx_add_op(CTX_SETUP, 0, 0, OP_BULK, 0, small ? 2 + R(target_hi) : P(50) ? target_hi / 2 : 10 + R(100), span, gx_u64() % 100000);
	pop = 100;
	if (P(30))
		gx_add_op(CTX_SETUP, 0, 0, OP_BULK, 2, 1 + R(20), 0, gx_u64() % 100000);
	gx_add_op(CTX_SETUP, 0, 0, OP_REG, ctl, 1, (int64_t[]){ 0, 1, 1000, MS, span / 8 + 1, span / 2 + 1, span }[R(7)], 0);
	steps = 6 + R(big ? 30 : 18);
	if (small) {
		/* Churn, then drain.  A small population (every heap position -- root, interior, last, last
		 * but one -- is a likely victim) gets a few single removals and registrations in one
		 * callback, and is then left alone until everything has expired, so that whatever damage a
		 * removal did to the timer store shows up as a late or out-of-order expiry instead of being
		 * repaired by the next removal.  Some cycles continue the churn after a short delay instead. */
		int fresh = 0, lastn = 8;
		steps = 40 + R(big ? 400 : 200);
		if (span > SEC)
			span = SEC;
		for (k = 1; k <= steps; k++) {
			int drain = P(70);
			if (fresh) {
				lastn = 3 + R(37);
				gx_add_op(CTX_CB, ctl, k, OP_BULK, 0, lastn, P(15) ? 1 : span, gx_u64() % 100000);
			}
			gx_add_op(CTX_CB, ctl, k, OP_BULK, 1, 1 + (P(70) ? 0 : R(3)), P(45) ? 0 : P(60) ? 5 : R(5), gx_u64() % 100000);
			/* later arrivals: a few, or enough of them that the old part of the store is not the
			 * first to be touched again when the population drains */
			if (P(85))
				gx_add_op(CTX_CB, ctl, k, OP_BULK, P(90) ? 0 : 2, P(50) ? 1 + R(3) : lastn + R(2 * lastn), span, gx_u64() % 100000);
			gx_add_op(CTX_CB, ctl, k, OP_REG, ctl, 1, drain ? 2 * span + 1 : (int64_t[]){ 0, 1, 1000, span / 64 + 1, span / 16 + 1 }[R(5)], 0);
			fresh = drain;
		}
		steps = 0;
	}
	for (k = 1; k <= steps; k++) {
		int r = R(100);
		if (r < 45) {
			int n = P(40) ? target_hi / 3 + R(target_hi / 3 + 1) : 1 + R(200);
			gx_add_op(CTX_CB, ctl, k, OP_BULK, 0, n, P(20) ? 1 : span, gx_u64() % 100000);
			pop += n;
		} else if (r < 85) {
			int n = P(40) ? target_hi / 3 + R(target_hi / 2 + 1) : 1 + R(200);
			gx_add_op(CTX_CB, ctl, k, OP_BULK, 1, n, R(5), gx_u64() % 100000);
		} else {
			gx_add_op(CTX_CB, ctl, k, OP_BULK, 2, 1 + R(40), 0, gx_u64() % 100000);
		}
		if (P(25))
			gx_add_op(CTX_CB, ctl, k, OP_BULK, 1, 1 + R(3), 3, gx_u64() % 100000);	/* root victims */
		if (P(10))
			gx_add_op(CTX_CB, ctl, k, OP_WORK, 0, span / 3 + 1, 0, 0);
		gx_add_op(CTX_CB, ctl, k, OP_REG, ctl, 1, (int64_t[]){ 0, 1, 1000, MS, span / 8 + 1, span / 2 + 1, span, 2 * span }[R(8)], 0);
	}
	(void)pop;
	gx_absent(8);
	gx_eintr(1, 15);
	if (P(12)) {
		/* a parked timer (expiry centuries away) beside the population */
		int pk = gx_add_obj(K_TIMER, 0);
		gx_add_op(CTX_SETUP, 0, 0, OP_REG, pk, 4, R(3000), 0);
	}
}

int gen_ext4(struct plan *p, const char *scenario, const char *prop, int tier);

int gen_ext3(struct plan *p, const char *scenario, const char *prop, int tier)
{
	G = p;
	if (!strcmp(scenario, "timers")) {
		gen_timers(tier);
		return 0;
	}
	return gen_ext4(p, scenario, prop, tier);
}
