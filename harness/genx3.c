/* genx3.c -- generators: pump, inotify, timer populations */
#define _GNU_SOURCE
#include <string.h>
#include "hz.h"

int gen_ext3(struct plan *p, const char *scenario, const char *prop, int tier)
{
	(void)p; (void)scenario; (void)prop; (void)tier;
	return -1;
}
