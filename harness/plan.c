/* plan.c -- textual plan / replay file format (line oriented, so that
 * delta debugging can delete lines) */
#define _GNU_SOURCE
#include <inttypes.h>
#include <stdlib.h>
#include <string.h>
#include "hz.h"

static const char *knames[K_MAX] = {
	"none", "chan", "fd", "timer", "task", "event", "raw", "signal", "wait",
	"pool", "item", "inot", "watch", "popen", "pump", "ivthread", "child",
};
static const char *onames[OP_MAX] = {
	"NONE", "REG", "UNREG", "SETH", "POST", "QUIT", "CONSUME", "PRODUCE",
	"CLOSE", "SHUTDOWN", "WORK", "INVAL", "SLEEP", "COOKIE", "RAISE",
	"TKILL", "SUBMIT", "PUT", "SPAWN", "WKILL", "FSOP", "PCLOSE",
	"BULK", "BURST", "YIELD", "RFORK",
};

const char *kind_name(int k) { return k >= 0 && k < K_MAX ? knames[k] : "?"; }
const char *op_name(int o) { return o >= 0 && o < OP_MAX ? onames[o] : "?"; }

static int kind_by_name(const char *s)
{
	int i;
	for (i = 0; i < K_MAX; i++)
		if (!strcmp(s, knames[i]))
			return i;
	return -1;
}
static int op_by_name(const char *s)
{
	int i;
	for (i = 0; i < OP_MAX; i++)
		if (!strcmp(s, onames[i]))
			return i;
	return -1;
}

void plan_init(struct plan *p)
{
	memset(p, 0, sizeof(*p));
	p->cfg.start_ns = 1000000000LL;
	p->cfg.max_steps = 400000;
	p->cfg.max_vtime_ns = 4000LL * 1000000000LL;
}

void plan_print(const struct plan *p, FILE *f)
{
	int i, j;

	fprintf(f, "ivsim-plan 1\n");
	fprintf(f, "scenario %s\n", p->scenario);
	fprintf(f, "prop %s\n", p->prop[0] ? p->prop : "-");
	fprintf(f, "seed %" PRIu64 " tier %d\n", p->seed, p->tier);
	fprintf(f, "cfg excl=%d xstyle=%d strat=%d psw=%d pct=%d rr=%d start=%" PRId64
		" ycost=%" PRId64 " btrunc=%d shortio=%d pipesz=%d fseed=%" PRIu64
		" sseed=%" PRIu64 " maxsteps=%ld maxvt=%" PRId64 " bulk=%" PRId64 "\n",
		p->method_excl, p->excl_style, p->cfg.strategy, p->cfg.p_switch, p->cfg.pct_depth,
		p->cfg.rr_quantum, p->cfg.start_ns, p->cfg.yield_cost_ns, p->cfg.batch_trunc,
		p->cfg.short_io, p->cfg.pipe_sz, p->cfg.fault_seed, p->cfg.sched_seed,
		p->cfg.max_steps, p->cfg.max_vtime_ns, p->bulk_n);
	for (i = 0; i < p->nthr; i++)
		fprintf(f, "thread %d %c cycles=%d exit=%d deinit=%d td=%d sigblock=%d reenter=%d\n", i,
			p->thr[i].kind, p->thr[i].cycles, p->thr[i].exitmode,
			p->thr[i].deinit, p->thr[i].td, p->thr[i].sigmask_all, p->thr[i].reenter);
	for (i = 0; i < p->nobj; i++) {
		if (p->obj[i].kind == K_NONE)
			continue;
		fprintf(f, "obj %d %s %d", i, kind_name(p->obj[i].kind), p->obj[i].owner);
		for (j = 0; j < NP; j++)
			fprintf(f, " %" PRId64, p->obj[i].p[j]);
		fprintf(f, "\n");
	}
	for (i = 0; i < p->nops; i++) {
		const struct pop *o = &p->ops[i];
		fprintf(f, "op %c %d %d %s %" PRId64 " %" PRId64 " %" PRId64 " %" PRId64 "\n",
			o->ctx, o->ctxid, o->when, op_name(o->op), o->a, o->b, o->c, o->d);
	}
	for (i = 0; i < p->nfaults; i++) {
		const struct simk_fault *x = &p->faults[i];
		fprintf(f, "fault %d %d %d %d %d %d %" PRId64 "\n", x->site, x->tid, x->k,
			x->sticky, x->err, x->mode, x->param);
	}
	if (p->sched != NULL) {
		/* run-length encoded: v or v*n */
		fprintf(f, "sched");
		for (i = 0; i < p->nsched; ) {
			int v = p->sched[i], n = 1;
			while (i + n < p->nsched && p->sched[i + n] == v)
				n++;
			if (n > 1)
				fprintf(f, " %d*%d", v, n);
			else
				fprintf(f, " %d", v);
			i += n;
		}
		fprintf(f, "\n");
	}
	if (p->expect[0])
		fprintf(f, "expect %s\n", p->expect);
	if (p->expect_hash)
		fprintf(f, "hash %016" PRIx64 "\n", p->expect_hash);
}

int plan_parse(struct plan *p, FILE *f, char *err, int errlen)
{
	char *line = NULL;
	size_t cap = 0;
	ssize_t n;
	int lineno = 0;

	plan_init(p);
	while ((n = getline(&line, &cap, f)) >= 0) {
		char w[64];
		int off = 0;

		lineno++;
		if (n > 0 && line[n - 1] == '\n')
			line[n - 1] = 0;
		if (line[0] == '#' || line[0] == 0)
			continue;
		if (sscanf(line, "%63s%n", w, &off) != 1)
			continue;
		if (!strcmp(w, "ivsim-plan")) {
			continue;
		} else if (!strcmp(w, "scenario")) {
			sscanf(line + off, "%31s", p->scenario);
		} else if (!strcmp(w, "prop")) {
			sscanf(line + off, "%7s", p->prop);
			if (!strcmp(p->prop, "-"))
				p->prop[0] = 0;
		} else if (!strcmp(w, "seed")) {
			sscanf(line + off, "%" SCNu64 " tier %d", &p->seed, &p->tier);
		} else if (!strcmp(w, "cfg")) {
			if (sscanf(line + off, " excl=%d xstyle=%d strat=%d psw=%d pct=%d rr=%d start=%" SCNd64
				   " ycost=%" SCNd64 " btrunc=%d shortio=%d pipesz=%d fseed=%" SCNu64
				   " sseed=%" SCNu64 " maxsteps=%ld maxvt=%" SCNd64 " bulk=%" SCNd64,
				   &p->method_excl, &p->excl_style, &p->cfg.strategy, &p->cfg.p_switch,
				   &p->cfg.pct_depth, &p->cfg.rr_quantum, &p->cfg.start_ns,
				   &p->cfg.yield_cost_ns, &p->cfg.batch_trunc, &p->cfg.short_io,
				   &p->cfg.pipe_sz, &p->cfg.fault_seed, &p->cfg.sched_seed,
				   &p->cfg.max_steps, &p->cfg.max_vtime_ns, &p->bulk_n) != 16) {
				snprintf(err, errlen, "line %d: bad cfg", lineno);
				free(line);
				return -1;
			}
		} else if (!strcmp(w, "thread")) {
			int i;
			char k;
			struct pthr t;
			memset(&t, 0, sizeof(t));
			if (sscanf(line + off, " %d %c cycles=%d exit=%d deinit=%d td=%d sigblock=%d reenter=%d", &i, &k,
				   &t.cycles, &t.exitmode, &t.deinit, &t.td, &t.sigmask_all, &t.reenter) < 7 ||
			    i < 0 || i >= MAXTHR) {
				snprintf(err, errlen, "line %d: bad thread", lineno);
				free(line);
				return -1;
			}
			t.kind = k;
			p->thr[i] = t;
			if (i >= p->nthr)
				p->nthr = i + 1;
		} else if (!strcmp(w, "obj")) {
			int i, o2 = 0, j, owner;
			char kn[32];
			if (sscanf(line + off, " %d %31s %d%n", &i, kn, &owner, &o2) != 3 ||
			    i < 0 || i >= MAXOBJ || kind_by_name(kn) < 0) {
				snprintf(err, errlen, "line %d: bad obj", lineno);
				free(line);
				return -1;
			}
			p->obj[i].kind = kind_by_name(kn);
			p->obj[i].owner = owner;
			off += o2;
			for (j = 0; j < NP; j++) {
				int o3 = 0;
				if (sscanf(line + off, " %" SCNd64 "%n", &p->obj[i].p[j], &o3) != 1)
					break;
				off += o3;
			}
			if (i >= p->nobj)
				p->nobj = i + 1;
		} else if (!strcmp(w, "op")) {
			struct pop o;
			char c, on[32];
			memset(&o, 0, sizeof(o));
			if (sscanf(line + off, " %c %d %d %31s %" SCNd64 " %" SCNd64 " %" SCNd64 " %" SCNd64,
				   &c, &o.ctxid, &o.when, on, &o.a, &o.b, &o.c, &o.d) != 8 ||
			    op_by_name(on) < 0 || p->nops >= MAXOPS) {
				snprintf(err, errlen, "line %d: bad op", lineno);
				free(line);
				return -1;
			}
			o.ctx = c;
			o.op = op_by_name(on);
			p->ops[p->nops++] = o;
		} else if (!strcmp(w, "fault")) {
			struct simk_fault x;
			memset(&x, 0, sizeof(x));
			if (sscanf(line + off, " %d %d %d %d %d %d %" SCNd64, &x.site, &x.tid, &x.k,
				   &x.sticky, &x.err, &x.mode, &x.param) != 7 || p->nfaults >= MAXFLT) {
				snprintf(err, errlen, "line %d: bad fault", lineno);
				free(line);
				return -1;
			}
			p->faults[p->nfaults++] = x;
		} else if (!strcmp(w, "sched")) {
			char *s = line + off;
			int capd = 1024;
			p->sched = malloc(capd);
			p->nsched = 0;
			for (;;) {
				int v, cnt = 1, o3 = 0;
				if (sscanf(s, " %d%n", &v, &o3) != 1)
					break;
				s += o3;
				if (*s == '*') {
					s++;
					if (sscanf(s, "%d%n", &cnt, &o3) != 1)
						break;
					s += o3;
				}
				while (cnt-- > 0) {
					if (p->nsched >= capd) {
						capd *= 2;
						p->sched = realloc(p->sched, capd);
					}
					p->sched[p->nsched++] = (uint8_t)v;
				}
			}
		} else if (!strcmp(w, "expect")) {
			sscanf(line + off, "%63s", p->expect);
		} else if (!strcmp(w, "hash")) {
			sscanf(line + off, "%" SCNx64, &p->expect_hash);
		} else if (!strcmp(w, "log") || !strcmp(w, "desc") || !strcmp(w, "note")) {
			continue;	/* informational lines of replay files */
		} else {
			snprintf(err, errlen, "line %d: unknown keyword %s", lineno, w);
			free(line);
			return -1;
		}
	}
	free(line);
	return 0;
}
