/* hz.h -- shared declarations of the ivsim harness (DESIGN.md section 3) */
#ifndef HZ_H
#define HZ_H

#include <stdint.h>
#include <stdio.h>
#include "../sim/simk.h"

/* ---- plan ------------------------------------------------------------ */
enum {
	K_NONE, K_CHAN, K_FD, K_TIMER, K_TASK, K_EVENT, K_RAW, K_SIGNAL, K_WAIT,
	K_POOL, K_ITEM, K_INOT, K_WATCH, K_POPEN, K_PUMP, K_IVTHREAD, K_CHILD, K_MAX
};

enum {
	OP_NONE, OP_REG, OP_UNREG, OP_SETH, OP_POST, OP_QUIT, OP_CONSUME, OP_PRODUCE,
	OP_CLOSE, OP_SHUTDOWN, OP_WORK, OP_INVAL, OP_SLEEP, OP_COOKIE, OP_RAISE,
	OP_TKILL, OP_SUBMIT, OP_PUT, OP_SPAWN, OP_WKILL, OP_FSOP, OP_PCLOSE,
	OP_BULK, OP_BURST, OP_YIELD, OP_RFORK, OP_MAX
};

enum { CTX_SETUP = 'S', CTX_CB = 'C', CTX_DRV = 'D' };

#define MAXOBJ	160
#define MAXOPS	2400
#define MAXTHR	8
#define MAXFLT	32
#define NP	8

struct pobj {
	int	kind;
	int	owner;		/* plan thread */
	int64_t	p[NP];
};

struct pop {
	int	ctx, ctxid, when;
	int	op;
	int64_t	a, b, c, d;
};

struct pthr {
	int	kind;		/* 'L' loop, 'D' driver */
	int	cycles;
	int	exitmode;	/* 0 return, 1 pthread_exit */
	int	deinit;		/* call iv_deinit at the end (else leave it to the destructor) */
	int	td;		/* has a tear-down handle */
	int	sigmask_all;	/* thread blocks all (simulated) signals */
	int	reenter;	/* after iv_quit: call iv_main again this many times with everything still registered */
};

struct plan {
	char		scenario[32];
	char		prop[8];
	uint64_t	seed;
	int		method_excl;	/* bit0 epoll-timerfd, bit1 epoll, bit2 ppoll */
	int		excl_style;
	struct simk_cfg	cfg;
	int		nthr;
	struct pthr	thr[MAXTHR];
	int		nobj;
	struct pobj	obj[MAXOBJ];
	int		nops;
	struct pop	ops[MAXOPS];
	int		nfaults;
	struct simk_fault faults[MAXFLT];
	uint8_t		*sched;		/* explicit decisions */
	int		nsched;
	char		expect[64];
	uint64_t	expect_hash;
	int64_t		bulk_n;		/* C05 population parameter */
	int		tier;
};

const char *kind_name(int k);
const char *op_name(int o);
void plan_print(const struct plan *p, FILE *f);
int plan_parse(struct plan *p, FILE *f, char *err, int errlen);
void plan_init(struct plan *p);

/* ---- generators ------------------------------------------------------- */
int gen_plan(struct plan *p, const char *scenario, const char *prop, uint64_t seed, int tier);
uint64_t sm64(uint64_t *s);

/* ---- engine ------------------------------------------------------------ */
struct result {
	int	status;		/* 0 ok, 1 violation, 2 inconclusive(budget), 3 abandoned */
	int	nviol;
	char	viol[8][32];
	char	desc[8][200];
	uint64_t hash, schedhash;
};

void engine_run(const struct plan *p, int result_fd, int verbose);	/* never returns */
void engine_global_init(void);

#endif
