/* genx4.c -- generators: pump, inotify */
#define _GNU_SOURCE
#include <errno.h>
#include <string.h>
#include <sys/inotify.h>
#include <sys/socket.h>
#include "hz.h"

int gx_R(int n);
int gx_P(int pct);
int gx_add_obj(int kind, int owner);
struct pop *gx_add_op(int ctx, int ctxid, int when, int op, int64_t d, int64_t a, int64_t b, int64_t c);
void gx_add_fault(int site, int tid, int k, int sticky, int err, int mode, int64_t param);
void gx_common_cfg(int n);
void gx_absent(int pct);
void gx_eintr(int nloops, int pct);
void gx_regfail(void);
int64_t gx_delta(void);
uint64_t gx_u64(void);
#define R gx_R
#define P gx_P
#define SEC 1000000000LL
#define MS 1000000LL
static struct plan *G;

/* ---- C17: pump ------------------------------------------------------------------------------- */
static void gen_pump(int tier)
{
	int many = P(6);	/* more pumps holding a buffer at once than the library's per-thread buffer cache takes */
	int npumps = many ? 21 + R(6) : 1 + (P(30) ? 1 + R(2) : 0), i, big = tier > 0, prod, cons;

	gx_common_cfg(3);
	G->cfg.max_steps = 1500000;
	G->nthr = 3;
	G->thr[0].kind = 'L'; G->thr[0].cycles = 1; G->thr[0].deinit = !P(15); G->thr[0].td = 1; G->thr[0].exitmode = P(20);
	G->thr[1].kind = 'D'; G->thr[1].cycles = 1;
	G->thr[2].kind = 'D'; G->thr[2].cycles = 1;
	prod = 1; cons = 2;
	if (P(45))
		G->cfg.short_io = 2 + R(4);
	if (P(35))
		gx_add_fault(FS_SPLICE, -1, 1, 1, P(50) ? EINVAL : ENOSYS, 0, 0);	/* read/write mode */
	if (P(15))
		gx_add_fault(FS_PIPE2, -1, 1, 1, ENOSYS, 0, 0);
	if (P(25))
		G->cfg.pipe_sz = 4096;
	if (P(8))
		gx_add_fault(FS_PIPE2, -1, 1 + R(6), 0, EMFILE, 0, 0);	/* no descriptors left for a buffer pipe, once */
	for (i = 0; i < npumps; i++) {
		int a = gx_add_obj(K_CHAN, -1), b = gx_add_obj(K_CHAN, -1), pu = gx_add_obj(K_PUMP, 0);
		long total = P(10) ? 0 : P(60) ? 1 + R(20000) : 1 + R(big ? 300000 : 120000), sent = 0;
		int n;
		if (many) {
			/* a small back-pressured stream each: the output pipe is 4 KiB, the consumer shows up late */
			total = 5000 + R(3000);
			G->obj[a].p[0] = 0;
			G->obj[b].p[0] = 0;
			G->obj[b].p[1] = 4096;
			G->obj[a].p[2] = 1 + (int64_t)(gx_u64() % 1000000007ULL);
			G->obj[b].p[2] = G->obj[a].p[2];
			G->obj[pu].p[0] = a; G->obj[pu].p[1] = 0;
			G->obj[pu].p[2] = b; G->obj[pu].p[3] = 1;
			G->obj[pu].p[4] = P(60);
			gx_add_op(CTX_SETUP, 0, 0, OP_REG, pu, 0, 0, 0);
			gx_add_op(CTX_DRV, prod, 0, OP_PRODUCE, a, 1, 4096, 0);
			gx_add_op(CTX_DRV, prod, 0, OP_PRODUCE, a, 1, total - 4096, 0);
			gx_add_op(CTX_DRV, prod, 0, OP_CLOSE, a, 1, 0, 0);
			if (i == 0)
				gx_add_op(CTX_DRV, cons, 0, OP_SLEEP, 0, 2000000000LL, 0, 0);
			gx_add_op(CTX_DRV, cons, 0, OP_CONSUME, b, 0, 65536, 0);
			gx_add_op(CTX_DRV, cons, 0, OP_SLEEP, 0, 1000000, 0, 0);
			gx_add_op(CTX_DRV, cons, 0, OP_CONSUME, b, 0, 65536, 0);
			continue;
		}
		G->obj[a].p[0] = P(50) ? 0 : 1;	/* pipe or socketpair */
		G->obj[b].p[0] = P(50) ? 0 : 1;
		if (G->obj[a].p[0] == 0 && P(30)) G->obj[a].p[1] = 4096;
		if (G->obj[b].p[0] == 0 && P(30)) G->obj[b].p[1] = 4096;
		G->obj[a].p[2] = 1 + (int64_t)(gx_u64() % 1000000007ULL);	/* stream seed */
		G->obj[b].p[2] = G->obj[a].p[2];
		G->obj[pu].p[0] = a; G->obj[pu].p[1] = 0;	/* the pump reads end 0 of A */
		G->obj[pu].p[2] = b; G->obj[pu].p[3] = 1;	/* ... and writes end 1 of B */
		G->obj[pu].p[4] = P(60);			/* RELAY_EOF */
		if (P(85))
			gx_add_op(CTX_SETUP, 0, 0, OP_REG, pu, 0, 0, 0);
		else {
			int tm = gx_add_obj(K_TIMER, 0);
			gx_add_op(CTX_SETUP, 0, 0, OP_REG, tm, 1, gx_delta(), 0);
			gx_add_op(CTX_CB, tm, 1, OP_REG, pu, 0, 0, 0);
		}
		/* producer: chunks, pauses, then end of input */
		n = 0;
		while (sent < total && n++ < 400) {
			long chunk = P(30) ? 1 + R(64) : P(50) ? 1 + R(4096) : 1 + R(70000);
			gx_add_op(CTX_DRV, prod, 0, OP_PRODUCE, a, 1, chunk, 0);
			sent += chunk > 4096 && G->obj[a].p[0] == 0 ? 4096 : chunk;
			if (P(25))
				gx_add_op(CTX_DRV, prod, 0, OP_SLEEP, 0, P(70) ? 1000 * (1 + R(1000)) : gx_delta(), 0, 0);
		}
		if (P(85)) {
			if (G->obj[a].p[0] == 0 || P(50))
				gx_add_op(CTX_DRV, prod, 0, OP_CLOSE, a, 1, 0, 0);
			else
				gx_add_op(CTX_DRV, prod, 0, OP_SHUTDOWN, a, 1, SHUT_WR, 0);
		}
		/* consumer: drains by arbitrary amounts at arbitrary times, long stalls => back-pressure */
		n = 2 + R(big ? 120 : 50);
		while (n-- > 0) {
			if (P(45))
				gx_add_op(CTX_DRV, cons, 0, OP_SLEEP, 0, P(70) ? 1000 * (1 + R(5000)) : gx_delta(), 0, 0);
			gx_add_op(CTX_DRV, cons, 0, OP_CONSUME, b, 0, P(30) ? 1 + R(100) : P(50) ? 1 + R(5000) : 65536, 0);
		}
		if (P(8))
			gx_add_op(CTX_DRV, cons, 0, OP_CLOSE, b, 0, 0, 0);	/* consumer goes away early */
		if (P(6)) {
			/* destroyed in mid-stream by the application */
			int tm = gx_add_obj(K_TIMER, 0);
			gx_add_op(CTX_SETUP, 0, 0, OP_REG, tm, 1, gx_delta(), 0);
			gx_add_op(CTX_CB, tm, 1, OP_UNREG, pu, 0, 0, 0);
		}
		if (P(12))
			gx_add_fault(P(70) ? FS_WRITE : FS_READ, 1, 1 + R(40), 0, P(50) ? EIO : EPIPE, 0, 0);
		if (P(35)) {
			/* the application also calls the pump on its own: once after set-up and / or from a
			 * timer that keeps coming back, whatever the descriptors' state is at that moment */
			if (P(50))
				gx_add_op(CTX_SETUP, 0, 0, OP_POST, pu, 0, 0, 0);
			if (P(75)) {
				int tm = gx_add_obj(K_TIMER, 0);
				gx_add_op(CTX_SETUP, 0, 0, OP_REG, tm, 1, P(60) ? 1000 * (1 + R(2000)) : gx_delta(), 0);
				gx_add_op(CTX_CB, tm, 0, OP_POST, pu, 0, 0, 0);
				gx_add_op(CTX_CB, tm, 0, OP_REG, tm, 1, P(60) ? 1000 * (1 + R(2000)) : gx_delta(), 0);
			}
		}
	}
	gx_absent(8);
	gx_eintr(1, 12);
}

/* ---- C20: inotify ---------------------------------------------------------------------------- */
static void gen_inot(int tier)
{
	static const uint32_t masks[] = {
		IN_ALL_EVENTS, IN_CREATE | IN_DELETE | IN_MOVED_FROM | IN_MOVED_TO, IN_MODIFY | IN_ATTRIB,
		IN_CLOSE_WRITE | IN_OPEN | IN_CLOSE_NOWRITE, IN_DELETE_SELF | IN_MOVE_SELF | IN_MODIFY | IN_ATTRIB,
		IN_ALL_EVENTS | IN_ONESHOT, IN_MODIFY | IN_ONESHOT,
	};
	int ninst = 1 + P(30), i, j, big = tier > 0, watches[40], nw = 0, insts[2], len;
	int two = ninst == 2 && P(45), drv;	/* each instance in a loop thread of its own */

	gx_common_cfg(two ? 3 : 2);
	G->nthr = two ? 3 : 2;
	G->thr[0].kind = 'L'; G->thr[0].cycles = 1; G->thr[0].deinit = !P(15); G->thr[0].td = 1; G->thr[0].exitmode = P(20);
	if (two) {
		G->thr[1].kind = 'L'; G->thr[1].cycles = 1; G->thr[1].deinit = !P(15); G->thr[1].td = 1; G->thr[1].exitmode = P(20);
	}
	drv = two ? 2 : 1;
	G->thr[drv].kind = 'D'; G->thr[drv].cycles = 1;
	if (P(20))
		G->cfg.strategy = 0, G->cfg.p_switch = 0;	/* bursts stay together */
	for (i = 0; i < ninst; i++) {
		int own = two ? i : 0;
		int in = gx_add_obj(K_INOT, own), n = 1 + R(big ? 8 : 6);
		insts[i] = in;
		gx_add_op(CTX_SETUP, own, 0, OP_REG, in, 0, 0, 0);
		for (j = 0; j < n && nw < 38; j++) {
			int w = gx_add_obj(K_WATCH, own);
			G->obj[w].p[0] = in;
			/* Instances never watch related inodes (the same one, or a directory and an entry in it):
			 * the kernel delivers one filesystem event to all interested groups in the order of the
			 * groups' addresses, so the relative order of two instances' records would not be
			 * reproducible.  Paths form three unrelated families: d0 and its files, d1 and its file,
			 * the top directory and its files. */
			{
				static const int fam[3][3] = { { 0, 1, 2 }, { 3, 4, 4 }, { 5, 6, 7 } };
				int f = R(3);
				if (ninst > 1)
					f = (i == 0) ? (P(50) ? 0 : 2) : 1;
				G->obj[w].p[1] = fam[f][R(3)];
			}
			G->obj[w].p[2] = masks[R(7)];
			watches[nw++] = w;
			if (P(80))
				gx_add_op(CTX_SETUP, own, 0, OP_REG, w, 0, 0, 0);
		}
	}
	for (i = 0; i < nw; i++) {
		int w = watches[i], na = R(4);
		while (na-- > 0) {
			int when = P(35) ? 0 : 1 + R(4), r = R(100);
			int ow = watches[R(nw)], oi = insts[R(ninst)];
			if (G->obj[ow].owner != G->obj[w].owner)
				ow = w;		/* a handler touches objects of its own thread only */
			if (G->obj[oi].owner != G->obj[w].owner)
				oi = (int)G->obj[w].p[0];
			if (r < 30)
				gx_add_op(CTX_CB, w, when, OP_UNREG, w, 0, 0, 0);
			else if (r < 55)
				gx_add_op(CTX_CB, w, when, OP_UNREG, ow, 0, 0, 0);
			else if (r < 65)
				gx_add_op(CTX_CB, w, when, OP_UNREG, oi, 0, 0, 0);
			else if (r < 85)
				gx_add_op(CTX_CB, w, when, OP_REG, ow, 0, 0, 0);
			else
				gx_add_op(CTX_CB, w, when, OP_FSOP, R(8), R(7), 0, 0);
		}
	}
	len = 4 + R(big ? 80 : 40);
	while (len-- > 0) {
		int r = R(100);
		if (r < 18)
			gx_add_op(CTX_DRV, drv, 0, OP_SLEEP, 0, gx_delta(), 0, 0);
		else {
			/* bursts put several records into one read */
			int burst = P(50) ? 1 : 2 + R(6);
			while (burst-- > 0)
				gx_add_op(CTX_DRV, drv, 0, OP_FSOP, R(8), R(7), 0, 0);
		}
	}
	if (P(20)) {
		int which = R(ninst), town = G->obj[insts[which]].owner;
		int tm = gx_add_obj(K_TIMER, town);
		gx_add_op(CTX_SETUP, town, 0, OP_REG, tm, 1, gx_delta(), 0);
		gx_add_op(CTX_CB, tm, 1, OP_UNREG, insts[which], 0, 0, 0);
		if (P(50))
			gx_add_op(CTX_CB, tm, 1, OP_REG, insts[which], 0, 0, 0);
	}
	if (!two && P(3) && nw > 0) {
		/* a flood: far more events than the kernel's queue holds (16384) are produced before the loop
		 * gets to read anything, so the queue ends in an overflow record that belongs to no watch */
		gx_add_op(CTX_SETUP, 0, 0, OP_FSOP, 1 + R(2), 5, 8300 + R(400), 0);
	}
	gx_absent(8);
	gx_eintr(two ? 2 : 1, 12);
	gx_regfail();
}

int gen_ext4(struct plan *p, const char *scenario, const char *prop, int tier)
{
	(void)prop;
	G = p;
	if (!strcmp(scenario, "pump")) {
		gen_pump(tier);
		return 0;
	}
	if (!strcmp(scenario, "inot")) {
		gen_inot(tier);
		return 0;
	}
	return -1;
}
