/* genx4.c -- generators: pump, inotify */
#define _GNU_SOURCE
#include <string.h>
#include "hz.h"

int gen_ext4(struct plan *p, const char *scenario, const char *prop, int tier)
{
	(void)p; (void)scenario; (void)prop; (void)tier;
	return -1;
}
