/* ext4.c -- iv_fd_pump (C17) and iv_inotify (C20) */
#define _GNU_SOURCE
#include <errno.h>
#include <fcntl.h>
#include <inttypes.h>
#include <poll.h>
#include <stdlib.h>
#include <string.h>
#include <sys/inotify.h>
#include <sys/ioctl.h>
#include <sys/socket.h>
#include <sys/stat.h>
#include <sys/syscall.h>
#include <unistd.h>

#include <iv.h>
#include <iv_fd_pump.h>
#include <iv_inotify.h>

#include "engine.h"
#include "ext.h"

/* =====================================================================================
 * C17: iv_fd_pump
 * ===================================================================================== */
/* channel stream state (RO[chan].xi) */
#define SX_WPOS		0	/* bytes of the stream written into the channel by the producer */
#define SX_RPOS		1	/* bytes read and verified by the consumer */
#define SX_PEOF		2	/* producer has closed / shut down its side */
#define SX_CEOF		3	/* consumer has seen end-of-file */
#define SX_CCLOSED	4	/* consumer closed its side early */

struct pumpx {
	struct iv_fd_pump	p;
	struct iv_fd		fin, fout;
	int			id, pollin, pollout, calls, done, errored, destroyed;
	int			idle_calls, last_bytes, last_full, last_fin;
	int64_t			last_wpos, last_rpos;
	int			achan, bchan;
};
#define PX(o)	((struct pumpx *)(o)->mem)

static uint8_t stream_byte(uint64_t seed, uint64_t pos)
{
	uint64_t s = seed * 0x9e3779b97f4a7c15ULL + (pos >> 3);
	return (uint8_t)(sm64(&s) >> ((pos & 7) * 8));
}

void ext4_stream_fill(int chan, unsigned char *buf, long n)
{
	uint64_t seed = (uint64_t)PL->obj[chan].p[2];
	long i;
	for (i = 0; i < n; i++)
		buf[i] = stream_byte(seed, (uint64_t)RO[chan].xi[SX_WPOS] + (uint64_t)i);
}
void ext4_stream_written(int chan, long n)
{
	if (n > 0) {
		RO[chan].xi[SX_WPOS] += n;
		PROBE[PR_PUMP_BYTES] += n;
	}
}

static int pump_of_bchan(int chan)
{
	int i;
	for (i = 0; i < PL->nobj; i++)
		if (PL->obj[i].kind == K_PUMP && PL->obj[i].p[2] == chan)
			return i;
	return -1;
}

void ext4_stream_verify(int chan, const unsigned char *buf, long n)
{
	/* the consumer reads from the pump's output channel: the bytes must continue the stream that the
	 * producer wrote into the pump's input channel */
	int pid = pump_of_bchan(chan), a;
	uint64_t seed;
	long i;

	if (pid < 0)
		return;
	a = (int)PL->obj[pid].p[0];
	seed = (uint64_t)PL->obj[a].p[2];
	if (n == 0) {
		RO[chan].xi[SX_CEOF] = 1;
		PROBE[PR_PUMP_EOF]++;
		if (!RO[a].xi[SX_PEOF])
			viol("C17.eof", "pump obj %d: the consumer saw end-of-file although the producer never ended the input", pid);
		else if (RO[chan].xi[SX_RPOS] != RO[a].xi[SX_WPOS])
			viol("C17.eof", "pump obj %d: end-of-file was relayed after %" PRId64 " of %" PRId64 " bytes", pid, RO[chan].xi[SX_RPOS], RO[a].xi[SX_WPOS]);
		return;
	}
	for (i = 0; i < n; i++) {
		uint64_t pos = (uint64_t)RO[chan].xi[SX_RPOS] + (uint64_t)i;
		if (pos >= (uint64_t)RO[a].xi[SX_WPOS]) {
			viol("C17.stream", "pump obj %d: the consumer received byte #%" PRIu64 " but only %" PRId64 " bytes were ever produced (duplication)", pid, pos, RO[a].xi[SX_WPOS]);
			return;
		}
		if (buf[i] != stream_byte(seed, pos)) {
			viol("C17.stream", "pump obj %d: byte #%" PRIu64 " received by the consumer is 0x%02x, the produced stream has 0x%02x there (loss, duplication or reordering)", pid, pos, buf[i], stream_byte(seed, pos));
			return;
		}
	}
	RO[chan].xi[SX_RPOS] += n;
}

void ext4_chan_closed(int chan, int end, int shut_wr_only)
{
	int i;
	(void)shut_wr_only;
	for (i = 0; i < PL->nobj; i++) {
		if (PL->obj[i].kind != K_PUMP)
			continue;
		if (PL->obj[i].p[0] == chan && PL->obj[i].p[1] != end)
			RO[chan].xi[SX_PEOF] = 1;	/* the producer's side of the input channel */
		if (PL->obj[i].p[2] == chan && PL->obj[i].p[3] != end)
			RO[chan].xi[SX_CCLOSED] = 1;	/* the consumer's side of the output channel */
	}
}

static void pump_set_bands(void *cookie, int pollin, int pollout);
static void pump_destroy(struct rthr *th, int id, int from_pump);

/* splice taken away after it has already been used (fault from a call index > 1) cannot be survived by a
 * pump that holds data in its pipe: -1 is then an honest answer.  Absent from its first call (the probe)
 * on, the pump must run in read/write mode and has no excuse. */
/* the pump could not get a pipe for its buffer (descriptor exhaustion injected at pipe2): an honest -1 */
static long pump_pipe_refused(void)
{
	int i;
	if (!simk_stats.fault_fired[FS_PIPE2])
		return 0;
	for (i = 0; i < PL->nfaults; i++)
		if (PL->faults[i].site == FS_PIPE2 && PL->faults[i].err != ENOSYS)
			return 1;
	return 0;
}

static long splice_lost_midrun(void)
{
	int i;
	if (!simk_stats.fault_fired[FS_SPLICE])
		return 0;
	for (i = 0; i < PL->nfaults; i++)
		if (PL->faults[i].site == FS_SPLICE && PL->faults[i].k > 1)
			return 1;
	return 0;
}

static void pump_check_after(struct rthr *th, int id, int ret)
{
	struct robj *o = &RO[id];
	struct pumpx *px = PX(o);
	int a = px->achan, b = px->bchan;

	(void)th;
	if (ret >= 0 && !!iv_fd_pump_is_done(&px->p) != (ret == 0))
		viol("C17.retval", "pump obj %d: iv_fd_pump_is_done() says %d right after the pump call returned %d", id, iv_fd_pump_is_done(&px->p), ret);
	if (ret == 1) {
		int want_in = !px->p.full && px->p.saw_fin == 0;
		int want_out = px->p.saw_fin == 1 ? 1 : px->p.bytes > 0;
		if (px->p.saw_fin == 2)
			viol("C17.retval", "pump obj %d: returned 1 although end-of-file has been relayed completely", id);
		if (px->pollin != want_in || px->pollout != want_out)
			viol("C17.bands", "pump obj %d: requested bands (in=%d,out=%d) do not reflect its state (bytes=%d full=%d saw_fin=%d => in=%d,out=%d)", id,
			     px->pollin, px->pollout, px->p.bytes, px->p.full, px->p.saw_fin, want_in, want_out);
		if (px->p.full && px->p.bytes <= 0)
			viol("C17.bands", "pump obj %d: marked full with %d bytes buffered", id, px->p.bytes);
		if (px->p.full)
			PROBE[PR_PUMP_FULL]++;
	} else if (ret == 0) {
		int inq = 0;
		int bfd = RO[b].cfd[1 - (int)PL->obj[id].p[3]];
		if (px->p.saw_fin != 2 || px->p.bytes != 0)
			viol("C17.retval", "pump obj %d: returned 0 with saw_fin=%d and %d bytes still buffered", id, px->p.saw_fin, px->p.bytes);
		if (!RO[a].xi[SX_PEOF])
			viol("C17.eof", "pump obj %d: reported end-of-file although the producer never ended the input", id);
		if (RO[b].copen[1 - (int)PL->obj[id].p[3]] && !RO[b].xi[SX_CCLOSED]) {
			ioctl(bfd, FIONREAD, &inq);
			if (RO[b].xi[SX_RPOS] + inq != RO[a].xi[SX_WPOS])
				viol("C17.eof", "pump obj %d: reported done, but only %" PRId64 "+%d of the %" PRId64 " produced bytes have reached the output", id,
				     RO[b].xi[SX_RPOS], inq, RO[a].xi[SX_WPOS]);
		}
		if ((px->p.flags & IV_FD_PUMP_FLAG_RELAY_EOF) && RO[b].ctype == 1 &&
		    RO[b].copen[1 - (int)PL->obj[id].p[3]] && !RO[b].xi[SX_CCLOSED]) {
			/* a socket output with RELAY_EOF: the far end must see the write side shut down by now */
			struct pollfd hp = { bfd, POLLIN | POLLRDHUP, 0 };
			syscall(SYS_poll, &hp, 1L, 0L);
			if (!(hp.revents & (POLLRDHUP | POLLHUP)))
				viol("C17.eof", "pump obj %d: reported done with RELAY_EOF set, but the output socket was not shut down (the consumer will never see end-of-file)", id);
		}
		if (px->pollin || px->pollout)
			viol("C17.bands", "pump obj %d: still requests bands (in=%d,out=%d) after completing", id, px->pollin, px->pollout);
		px->done = 1;
	} else {
		/* -1: only legitimate after an I/O error: an injected one, or the consumer having gone away */
		if (!RO[b].xi[SX_CCLOSED] && simk_stats.fault_fired[FS_WRITE] + simk_stats.fault_fired[FS_READ] + splice_lost_midrun() + pump_pipe_refused() == 0)
			viol("C17.retval", "pump obj %d: returned -1 although no I/O error occurred%s", id,
			     simk_stats.fault_fired[FS_SPLICE] ? " (splice is absent from its first call on: the pump has to work in read/write mode)" : "");
		px->errored = 1;
	}
}

static void pump_event(void *cookie)
{
	struct cookie *ck = cookie;
	int id = ck->id, ret;
	struct robj *o = &RO[id];
	struct rthr *th = cur_thr();
	struct pumpx *px = PX(o);

	SEQ++;
	if (th == NULL || (int)(th - RT) != PL->obj[id].owner) {
		viol("C03.thread", "pump obj %d: descriptor handler ran in the wrong thread", id);
		finish(1);
	}
	th->spin = 0;
	th->cbs++;
	th->last_kind = K_PUMP;
	if (!o->registered || px == NULL || px->destroyed) {
		viol("C01.stale_cb", "pump obj %d: descriptor handler invoked after the pump's descriptors were unregistered", id);
		finish(1);
	}
	simk_log(100, id, K_PUMP * 16);
	px->calls++;
	th->api_try = 1;	/* the pump may probe its descriptors with a zero-timeout poll of its own */
	ret = iv_fd_pump_pump(&px->p);
	th->api_try = 0;
	/* "input while buffer space remains, output while data is buffered": a pump whose handler is
	 * invoked over and over without anything moving is requesting a band it cannot use */
	if (ret == 1 && px->p.bytes == px->last_bytes && px->p.full == px->last_full && px->p.saw_fin == px->last_fin &&
	    RO[px->achan].xi[SX_WPOS] == px->last_wpos && RO[px->bchan].xi[SX_RPOS] == px->last_rpos) {
		if (++px->idle_calls >= 300)
			viol("C17.bands", "pump obj %d: handler invoked %d times in a row without any progress while it keeps requesting bands (in=%d,out=%d) with bytes=%d full=%d saw_fin=%d: the requested input band does not reflect that its buffer has no space left", id,
			     px->idle_calls, px->pollin, px->pollout, px->p.bytes, px->p.full, px->p.saw_fin);
	} else {
		px->idle_calls = 0;
		px->last_bytes = px->p.bytes;
		px->last_full = px->p.full;
		px->last_fin = px->p.saw_fin;
		px->last_wpos = RO[px->achan].xi[SX_WPOS];
		px->last_rpos = RO[px->bchan].xi[SX_RPOS];
	}
	if (VERBOSE > 1)
		fprintf(stderr, "pump %d: ret=%d bytes=%d full=%d fin=%d in=%d out=%d\n", id, ret, px->p.bytes, px->p.full, px->p.saw_fin, px->pollin, px->pollout);
	pump_check_after(th, id, ret);
	if (have_viol())
		finish(1);
	if (ret == 0 && !have_viol()) {
		/* re-calling a finished pump must report 0 again */
		int r2 = iv_fd_pump_pump(&px->p);
		if (r2 != 0)
			viol("C17.retval", "pump obj %d: returned %d when called again after it had reported completion", id, r2);
	}
	if (ret <= 0)
		pump_destroy(th, id, 1);
	if (have_viol())
		finish(1);
}

static void pump_set_bands(void *cookie, int pollin, int pollout)
{
	struct cookie *ck = cookie;
	struct pumpx *px = PX(&RO[ck->id]);
	px->pollin = pollin;
	px->pollout = pollout;
	if (px->destroyed)
		return;
	iv_fd_set_handler_in(&px->fin, pollin ? pump_event : NULL);
	iv_fd_set_handler_out(&px->fout, pollout ? pump_event : NULL);
}

static int pump_reg(struct rthr *th, int id)
{
	struct robj *o = &RO[id];
	const struct pobj *po = &PL->obj[id];
	int a = (int)po->p[0], ae = (int)po->p[1], b = (int)po->p[2], be = (int)po->p[3];
	struct pumpx *px;

	(void)th;
	if (o->xi[0])
		return 0;	/* one life per pump object */
	if (!RO[a].copen[ae] || !RO[b].copen[be])
		return 0;
	o->memsz = sizeof(struct pumpx);
	o->mem = calloc(1, o->memsz);
	px = o->mem;
	px->id = id;
	px->achan = a;
	px->bchan = b;
	new_cookie(id);
	IV_FD_INIT(&px->fin);
	px->fin.fd = RO[a].cfd[ae];
	px->fin.cookie = o->ck;
	iv_fd_register(&px->fin);
	IV_FD_INIT(&px->fout);
	px->fout.fd = RO[b].cfd[be];
	px->fout.cookie = o->ck;
	iv_fd_register(&px->fout);
	simk_fd_mark(px->fin.fd, SIMK_FDM_SHORT | SIMK_FDM_FAULT);
	simk_fd_mark(px->fout.fd, SIMK_FDM_SHORT | SIMK_FDM_FAULT);
	o->registered = 1;
	o->xi[0] = 1;
	memset(&px->p, 0xA5, sizeof(px->p));	/* as handed over by an application that does not zero its memory */
	IV_FD_PUMP_INIT(&px->p);
	px->p.from_fd = px->fin.fd;
	px->p.to_fd = px->fout.fd;
	px->p.cookie = o->ck;
	px->p.set_bands = pump_set_bands;
	px->p.flags = (unsigned int)po->p[4];
	iv_fd_pump_init(&px->p);
	if (px->pollin != 1 || px->pollout != 0)
		viol("C17.bands", "pump obj %d: after initialisation the requested bands are (in=%d,out=%d), expected (1,0)", id, px->pollin, px->pollout);
	return 1;
}

static void pump_destroy(struct rthr *th, int id, int from_pump)
{
	struct robj *o = &RO[id];
	struct pumpx *px = PX(o);

	(void)th; (void)from_pump;
	if (px == NULL || px->destroyed)
		return;
	iv_fd_pump_destroy(&px->p);
	px->destroyed = 1;
	iv_fd_unregister(&px->fin);
	iv_fd_unregister(&px->fout);
	simk_fd_mark(px->fin.fd, 0);
	simk_fd_mark(px->fout.fd, 0);
	o->registered = 0;
	o->xi[1] = px->done;
	o->xi[2] = px->errored;
	o->gen++;
	obj_free_mem(id);
}

static int pump_drain_consumers(void)
{
	int i, progress = 0;
	for (i = 0; i < PL->nobj; i++) {
		int b, be;
		if (PL->obj[i].kind != K_PUMP || !RO[i].xi[0])
			continue;
		b = (int)PL->obj[i].p[2];
		be = 1 - (int)PL->obj[i].p[3];
		while (RO[b].copen[be] && !RO[b].xi[SX_CEOF] && chan_read(b, be, 65536) > 0)
			progress = 1;
	}
	return progress;
}

static void pump_obligations(void)
{
	int i;
	for (i = 0; i < PL->nobj; i++) {
		int a, b;
		if (PL->obj[i].kind != K_PUMP || !RO[i].xi[0])
			continue;
		a = (int)PL->obj[i].p[0];
		b = (int)PL->obj[i].p[2];
		if (RO[b].xi[SX_CCLOSED] || RO[i].xi[2] || (RO[i].registered && PX(&RO[i])->errored))
			continue;	/* after an I/O error the stream may stop short (never differ) */
		if (!RO[i].registered && !RO[i].xi[1])
			continue;	/* destroyed in mid-stream by the application */
		if (!RT[PL->obj[i].owner].in_main && RO[i].registered)
			continue;
		if (RO[b].xi[SX_RPOS] != RO[a].xi[SX_WPOS])
			viol("C17.complete", "quiescence: pump obj %d has delivered %" PRId64 " of the %" PRId64 " bytes produced, the consumer has drained everything and nothing moves any more", i,
			     RO[b].xi[SX_RPOS], RO[a].xi[SX_WPOS]);
		else if (RO[a].xi[SX_PEOF] && RO[i].registered && !PX(&RO[i])->done)
			viol("C17.complete", "quiescence: pump obj %d: the input ended and all bytes were delivered, but the pump never reported completion", i);
	}
}

/* =====================================================================================
 * C20: iv_inotify
 * ===================================================================================== */
#define NQ 8192	/* more than one 64 KiB read can hold */
struct irec { int wd; uint32_t mask, cookie, len; char name[48]; };
struct iq { struct irec r[NQ]; int head, tail; };
static struct iq *IQ[MAXOBJ];
static char ino_root[96];
static const char *ino_paths[8] = { "d0", "d0/a", "d0/b", "d1", "d1/x", "f0", "f1", "." };
#define WX_WD	0
#define WX_AUTO	1	/* dropped by the library itself (IN_IGNORED / one-shot) */
#define IX_FD	0

static void ino_path(int idx, char *out, size_t n, const char *suffix)
{
	snprintf(out, n, "%s/%s%s", ino_root, ino_paths[idx & 7], suffix ? suffix : "");
}

static void ino_setup(void)
{
	char p[200];
	int fd, i;
	snprintf(ino_root, sizeof(ino_root), "/dev/shm/ivsim-ino-%d", (int)getpid());
	mkdir(ino_root, 0700);
	ino_path(0, p, sizeof(p), NULL); mkdir(p, 0700);
	ino_path(3, p, sizeof(p), NULL); mkdir(p, 0700);
	for (i = 0; i < 7; i++) {
		if (i == 0 || i == 3)
			continue;
		ino_path(i, p, sizeof(p), NULL);
		fd = (int)syscall(SYS_openat, AT_FDCWD, p, O_CREAT | O_WRONLY, 0600);
		if (fd >= 0)
			syscall(SYS_close, fd);
	}
}

static int fsop(int idx, int kind)
{
	char p[200], q[200];
	int fd;
	struct stat st;

	if (!ino_root[0])
		return 0;
	idx &= 7;
	ino_path(idx, p, sizeof(p), NULL);
	if (idx == 0 || idx == 3 || idx == 7) {
		/* directories: create / remove a scratch entry inside */
		snprintf(q, sizeof(q), "%s/t%d", p, kind);
		if (kind & 1) {
			fd = (int)syscall(SYS_openat, AT_FDCWD, q, O_CREAT | O_WRONLY, 0600);
			if (fd >= 0)
				syscall(SYS_close, fd);
		} else {
			syscall(SYS_unlinkat, AT_FDCWD, q, 0);
		}
		return 1;
	}
	switch (kind % 7) {
	case 0:
		fd = (int)syscall(SYS_openat, AT_FDCWD, p, O_CREAT | O_WRONLY | O_TRUNC, 0600);
		if (fd >= 0)
			syscall(SYS_close, fd);
		break;
	case 1:
		fd = (int)syscall(SYS_openat, AT_FDCWD, p, O_WRONLY | O_APPEND, 0600);
		if (fd >= 0) {
			syscall(SYS_write, fd, "x", 1L);
			syscall(SYS_close, fd);
		}
		break;
	case 2:
		syscall(SYS_unlinkat, AT_FDCWD, p, 0);
		break;
	case 3:
		ino_path(idx, q, sizeof(q), ".r");
		if (stat(p, &st) == 0)
			syscall(SYS_renameat, AT_FDCWD, p, AT_FDCWD, q);
		else
			syscall(SYS_renameat, AT_FDCWD, q, AT_FDCWD, p);
		break;
	case 4:
		if (stat(p, &st) == 0)
			syscall(SYS_fchmodat, AT_FDCWD, p, (st.st_mode & 0777) ^ 0040, 0);
		break;
	case 5:
		fd = (int)syscall(SYS_openat, AT_FDCWD, p, O_RDONLY, 0);
		if (fd >= 0) {
			char c;
			syscall(SYS_read, fd, &c, 1L);
			syscall(SYS_close, fd);
		}
		break;
	case 6:
		fd = (int)syscall(SYS_openat, AT_FDCWD, p, O_CREAT | O_WRONLY, 0600);
		if (fd >= 0) {
			syscall(SYS_write, fd, "yy", 2L);
			syscall(SYS_close, fd);
		}
		break;
	}
	return 1;
}

static void h_watch(void *ck, struct inotify_event *ev)
{
	generic_cb(ck, K_WATCH, 0, (int64_t)(uintptr_t)ev, 0);
}

static int watch_live(int inst, int wd)
{
	int i;
	for (i = 0; i < PL->nobj; i++)
		if (PL->obj[i].kind == K_WATCH && PL->obj[i].p[0] == inst && RO[i].registered && RO[i].xi[WX_WD] == wd)
			return i;
	return -1;
}

static void obs_read_data(int tid, int fd, const void *buf, long n)
{
	int i;
	const char *p = buf, *end = p + n;
	(void)tid;
	for (i = 0; i < PL->nobj; i++)
		if (PL->obj[i].kind == K_INOT && RO[i].registered && RO[i].xi[IX_FD] == fd)
			break;
	if (i == PL->nobj)
		return;
	if (IQ[i] == NULL)
		IQ[i] = calloc(1, sizeof(struct iq));
	{
		int nrec = 0;
		/* the independent parse of exactly the bytes the kernel handed to the library */
		while (p + sizeof(struct inotify_event) <= end) {
			struct inotify_event ev;
			struct irec *r;
			memcpy(&ev, p, sizeof(ev));
			if (p + sizeof(ev) + ev.len > end)
				break;
			r = &IQ[i]->r[IQ[i]->tail % NQ];
			r->wd = ev.wd;
			r->mask = ev.mask;
			r->cookie = ev.cookie;
			r->len = ev.len;
			memset(r->name, 0, sizeof(r->name));
			if (ev.len)
				strncpy(r->name, p + sizeof(ev), sizeof(r->name) - 1);
			IQ[i]->tail++;
			p += sizeof(ev) + ev.len;
			nrec++;
		}
		if (nrec > 1)
			PROBE[PR_INOT_MULTI]++;
	}
}

/* records still queued that a live watch should have received */
static void inot_check_leftover(int inst, const char *when)
{
	struct iq *q = IQ[inst];
	if (q == NULL)
		return;
	while (q->head < q->tail) {
		struct irec *r = &q->r[q->head % NQ];
		int w = RO[inst].registered ? watch_live(inst, r->wd) : -1;
		if (w >= 0) {
			viol("C20.route", "inotify obj %d: an event (wd %d mask 0x%x name '%s') read from the kernel was never delivered to watch obj %d (%s)", inst, r->wd, r->mask, r->name, w, when);
			return;
		}
		q->head++;
	}
}

static void watch_cb(struct rthr *th, int id, struct inotify_event *ev)
{
	struct robj *o = &RO[id];
	int inst = (int)PL->obj[id].p[0];
	struct iq *q = IQ[inst];

	(void)th;
	PROBE[PR_INOT_CB]++;
	if (q == NULL) {
		viol("C20.route", "watch obj %d: handler invoked although nothing was read from its inotify descriptor", id);
		return;
	}
	for (;;) {
		struct irec *r;
		int w;
		if (q->head >= q->tail) {
			viol("C20.route", "watch obj %d: handler invoked (wd %d mask 0x%x) but no such event remains in what the kernel returned", id, ev->wd, ev->mask);
			return;
		}
		r = &q->r[q->head % NQ];
		w = watch_live(inst, r->wd);
		if (w < 0) {
			q->head++;	/* no live watch for it: legitimately dropped */
			continue;
		}
		q->head++;
		if (w != id || r->wd != ev->wd || r->mask != ev->mask || r->cookie != ev->cookie || r->len != ev->len ||
		    (ev->len && strncmp(r->name, ev->name, sizeof(r->name) - 1) != 0))
			viol("C20.route", "watch obj %d got event (wd %d mask 0x%x len %u name '%s'); the next event in kernel order belongs to watch obj %d (wd %d mask 0x%x len %u name '%s')",
			     id, ev->wd, ev->mask, ev->len, ev->len ? ev->name : "", w, r->wd, r->mask, r->len, r->name);
		break;
	}
	if ((ev->mask & IN_IGNORED) || (PL->obj[id].p[2] & IN_ONESHOT)) {
		/* the library has dropped the watch by itself, before calling us */
		o->registered = 0;
		o->gen++;
		o->xi[WX_AUTO] = 1;
	}
}

static int inot_reg(struct rthr *th, int id)
{
	struct robj *o = &RO[id];
	(void)th;
	o->memsz = sizeof(struct iv_inotify);
	o->mem = malloc(o->memsz);
	memset(o->mem, 0xA5, o->memsz);
	IV_INOTIFY_INIT((struct iv_inotify *)o->mem);
	reg_fault_arm(id, 1, FS_INOTIFY_INIT, EMFILE);
	long ff0 = faults_fired_total();
	if (iv_inotify_register(o->mem) != 0) {
		unexplained_failure("iv_inotify_register", id, ff0);
		reg_fault_disarm(FS_INOTIFY_INIT);
		PROBE[PR_REG_FAILED_EXT]++;
		obj_free_mem(id);
		return 1;
	}
	reg_fault_disarm(FS_INOTIFY_INIT);
	o->registered = 1;
	o->xi[IX_FD] = ((struct iv_inotify *)o->mem)->fd.fd;
	if (IQ[id] != NULL)
		IQ[id]->head = IQ[id]->tail = 0;
	return 1;
}

static int inot_unreg(struct rthr *th, int id)
{
	struct robj *o = &RO[id];
	int i;
	(void)th;
	iv_inotify_unregister(o->mem);
	o->registered = 0;
	o->gen++;
	/* its watches go with it: their memory is the caller's to release */
	for (i = 0; i < PL->nobj; i++)
		if (PL->obj[i].kind == K_WATCH && PL->obj[i].p[0] == id && RO[i].registered) {
			RO[i].registered = 0;
			RO[i].gen++;
			obj_free_mem(i);
		}
	if (IQ[id] != NULL)
		IQ[id]->head = IQ[id]->tail = 0;
	obj_free_mem(id);
	return 1;
}

static int watch_reg(struct rthr *th, int id)
{
	struct robj *o = &RO[id];
	const struct pobj *po = &PL->obj[id];
	int inst = (int)po->p[0], i, exists;
	long ff0, fsops0;
	struct iv_inotify_watch *w;
	char path[200];

	(void)th;
	if (inst < 0 || inst >= PL->nobj || PL->obj[inst].kind != K_INOT || !RO[inst].registered)
		return 0;
	/* one watch per path and instance: the kernel would hand out the same watch descriptor twice */
	for (i = 0; i < PL->nobj; i++)
		if (i != id && PL->obj[i].kind == K_WATCH && PL->obj[i].p[0] == inst && RO[i].registered &&
		    (PL->obj[i].p[1] & 7) == (po->p[1] & 7))
			return 0;
	ino_path((int)po->p[1], path, sizeof(path), NULL);
	o->memsz = sizeof(struct iv_inotify_watch) + sizeof(path);
	o->mem = malloc(o->memsz);
	memset(o->mem, 0xA5, sizeof(struct iv_inotify_watch));
	w = o->mem;
	IV_INOTIFY_WATCH_INIT(w);
	memcpy((char *)(w + 1), path, sizeof(path));
	w->inotify = RO[inst].mem;
	w->pathname = (char *)(w + 1);
	w->mask = (uint32_t)po->p[2];
	w->cookie = new_cookie(id);
	w->handler = h_watch;
	reg_fault_arm(id, 1, FS_INOTIFY_ADD, ENOSPC);
	ff0 = faults_fired_total();
	exists = access(path, F_OK) == 0;
	fsops0 = OPS[OP_FSOP];
	if (iv_inotify_watch_register(w) != 0) {
		/* (the driver may have removed the path while the call was on its way: then the failure is honest) */
		if (exists && fsops0 == OPS[OP_FSOP] && access(path, F_OK) == 0)
			unexplained_failure("iv_inotify_watch_register (path exists)", id, ff0);
		reg_fault_disarm(FS_INOTIFY_ADD);
		PROBE[PR_REG_FAILED_EXT]++;
		obj_free_mem(id);
		return 1;
	}
	reg_fault_disarm(FS_INOTIFY_ADD);
	/* an inode that is already watched through another path of this instance yields the same wd */
	for (i = 0; i < PL->nobj; i++)
		if (i != id && PL->obj[i].kind == K_WATCH && PL->obj[i].p[0] == inst && RO[i].registered && RO[i].xi[WX_WD] == w->wd) {
			/* cannot happen with distinct files; keep the model honest if it does */
			iv_inotify_watch_unregister(w);
			obj_free_mem(id);
			return 1;
		}
	o->registered = 1;
	o->xi[WX_WD] = w->wd;
	o->xi[WX_AUTO] = 0;
	return 1;
}

static int watch_unreg(struct rthr *th, int id)
{
	struct robj *o = &RO[id];
	(void)th;
	iv_inotify_watch_unregister(o->mem);
	o->registered = 0;
	o->gen++;
	obj_free_mem(id);
	return 1;
}

/* =====================================================================================
 * dispatch
 * ===================================================================================== */
int ext4_live(int id)
{
	switch (PL->obj[id].kind) {
	case K_PUMP:
	case K_INOT:
		return RO[id].registered;
	}
	return 0;
}

int ext4_reg(struct rthr *th, int id, const struct pop *op)
{
	(void)op;
	switch (PL->obj[id].kind) {
	case K_PUMP:
		return pump_reg(th, id);
	case K_INOT:
		return inot_reg(th, id);
	case K_WATCH:
		return watch_reg(th, id);
	}
	return 0;
}

int ext4_unreg(struct rthr *th, int id, int keep)
{
	(void)keep;
	switch (PL->obj[id].kind) {
	case K_PUMP:
		pump_destroy(th, id, 0);
		return 1;
	case K_INOT:
		return inot_unreg(th, id);
	case K_WATCH:
		return watch_unreg(th, id);
	}
	return 0;
}

/* iv_fd_pump_pump() called by the application itself (a kick after set-up, a timer, a spurious wake-up)
 * rather than from a readiness callback: legal at any time in the owner thread */
int ext4_pump_kick(struct rthr *th, int id)
{
	struct robj *o = &RO[id];
	struct pumpx *px = PX(o);
	if (th == NULL || (int)(th - RT) != PL->obj[id].owner || !th->inited || !o->registered || px == NULL || px->destroyed ||
	    px->done || px->errored)
		return 0;
	PROBE[PR_PUMP_KICK]++;
	pump_event(o->ck);
	return 1;
}

int ext4_op(struct rthr *th, const struct pop *op)
{
	(void)th;
	if (op->op == OP_FSOP) {
		long rep = op->b > 1 ? (long)op->b : 1, k;
		int r = 0;
		simk_log(101, OP_FSOP, op->d * 16 + op->a);
		for (k = 0; k < rep; k++)	/* a repeat count makes bursts that overflow the kernel's event queue */
			r = fsop((int)op->d, (int)op->a);
		if (rep > 1)
			PROBE[PR_INOT_FLOOD]++;
		return r;
	}
	return 0;
}

void ext4_cb(struct rthr *th, int id, int kind, int band, int64_t x1, int64_t x2)
{
	(void)band; (void)x2;
	if (kind == K_WATCH && (RO[id].registered))
		watch_cb(th, id, (struct inotify_event *)(uintptr_t)x1);
}

void ext4_cb_exit(struct rthr *th, int id, int kind)
{
	(void)th;
	if (kind == K_WATCH && RO[id].xi[WX_AUTO] && !RO[id].registered && RO[id].mem != NULL) {
		RO[id].xi[WX_AUTO] = 0;
		obj_free_mem(id);
	}
}

int ext4_foreign_thread_ok(int id, int kind) { (void)id; (void)kind; return 0; }
int ext4_nesting_ok(int kind, int outer_kind) { (void)kind; (void)outer_kind; return 0; }
int ext4_stale_ok(int id, int kind, int band) { (void)id; (void)kind; (void)band; return 0; }

void ext4_wait_block(struct rthr *th) { (void)th; }

void ext4_wait_enter(struct rthr *th)
{
	int i, t = (int)(th - RT);
	for (i = 0; i < PL->nobj; i++)
		if (PL->obj[i].kind == K_INOT && PL->obj[i].owner == t && IQ[i] != NULL)
			inot_check_leftover(i, "by the time the loop polled again");
}

void ext4_teardown(struct rthr *th)
{
	int i, t = (int)(th - RT);
	/* watches before their instance */
	for (i = 0; i < PL->nobj; i++)
		if (PL->obj[i].owner == t && PL->obj[i].kind == K_WATCH && RO[i].registered && (PL->seed & 2))
			watch_unreg(th, i);
}
void ext4_post_main(struct rthr *th) { ext4_teardown(th); }

void ext4_install_obs(void)
{
	int i;
	for (i = 0; i < PL->nobj; i++)
		if (PL->obj[i].kind == K_INOT) {
			simk_obs.read_data = obs_read_data;
			break;
		}
}

void ext4_run_begin(void)
{
	int i;
	ino_root[0] = 0;
	for (i = 0; i < PL->nobj; i++)
		if (PL->obj[i].kind == K_INOT) {
			ino_setup();
			break;
		}
}

int ext4_quiesce_progress(void) { return pump_drain_consumers(); }

void ext4_obligations(void)
{
	int i;
	pump_obligations();
	for (i = 0; i < PL->nobj; i++)
		if (PL->obj[i].kind == K_INOT && RO[i].registered && IQ[i] != NULL && RT[PL->obj[i].owner].in_main)
			inot_check_leftover(i, "at quiescence");
}

void ext4_end_of_run(int all_exited) { (void)all_exited; }
