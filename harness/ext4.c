/* ext4.c -- iv_fd_pump (C17) and iv_inotify (C20) */
#define _GNU_SOURCE
#include <stdlib.h>
#include <string.h>
#include "engine.h"
#include "ext.h"

int ext4_live(int id) { (void)id; return 0; }
int ext4_reg(struct rthr *th, int id, const struct pop *op) { (void)th; (void)id; (void)op; return 0; }
int ext4_unreg(struct rthr *th, int id, int keep) { (void)th; (void)id; (void)keep; return 0; }
int ext4_op(struct rthr *th, const struct pop *op) { (void)th; (void)op; return 0; }
void ext4_cb(struct rthr *th, int id, int kind, int band, int64_t x1, int64_t x2) { (void)th; (void)id; (void)kind; (void)band; (void)x1; (void)x2; }
void ext4_cb_exit(struct rthr *th, int id, int kind) { (void)th; (void)id; (void)kind; }
int ext4_foreign_thread_ok(int id, int kind) { (void)id; (void)kind; return 0; }
int ext4_nesting_ok(int kind, int outer_kind) { (void)kind; (void)outer_kind; return 0; }
int ext4_stale_ok(int id, int kind, int band) { (void)id; (void)kind; (void)band; return 0; }
void ext4_wait_block(struct rthr *th) { (void)th; }
void ext4_teardown(struct rthr *th) { (void)th; }
void ext4_post_main(struct rthr *th) { (void)th; }
void ext4_install_obs(void) { }
void ext4_run_begin(void) { }
void ext4_obligations(void) { }
void ext4_end_of_run(int all_exited) { (void)all_exited; }
