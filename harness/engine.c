/*
 * engine.c -- executes a plan against the real library under simk, keeps the
 * reference model and evaluates the oracles (DESIGN.md sections 3 and 4).
 *
 * Everything here runs under the simulator's serialisation: exactly one
 * simulated thread executes at any time, so the model needs no locking.
 */
#define _GNU_SOURCE
#include <errno.h>
#include <fcntl.h>
#include <inttypes.h>
#include <sys/time.h>
#include <poll.h>
#include <pthread.h>
#include <signal.h>
#include <stdarg.h>
#include <stdlib.h>
#include <string.h>
#include <sys/eventfd.h>
#include <sys/socket.h>
#include <sys/syscall.h>
#include <sys/wait.h>
#include <unistd.h>

#include <iv.h>
#include <iv_event.h>
#include <iv_event_raw.h>

#include "hz.h"
#include "engine.h"
#include "ext.h"

/* ---- state ----------------------------------------------------------------- */
const struct plan *PL;
int VERBOSE;
uint64_t SEQ;
struct robj RO[MAXOBJ];
struct rthr RT[MAXTHR];
int sim2plan[SIMK_MAXT];
long PROBE[PR_MAX];
long CBS[K_MAX];
long OPS[OP_MAX];
#define CB_LIMIT 24
static int nviol;
static char viol_id[8][32];
static char viol_desc[8][200];
static int finishing;
static int teardown_phase, teardown_started;
static volatile int first_init_done;

static const char *probe_names[PR_MAX] = {
	"unreg_in_cb", "unreg_ready_fd", "unreg_expired_timer", "unreg_pending_task",
	"unreg_posted_event", "seth_in_cb", "reg_in_cb", "try_failed", "timer_fired",
	"task_ran", "task_deferred_reg", "event_cb", "raw_cb", "fd_cb", "post_cross",
	"post_self", "post_coalesced", "quit", "natural_return", "teardown", "reinit_reuse",
	"block", "eintr_seen", "cycles", "fd_hup", "oneshot_rereg", "multi_due",
	"thread_exit_nodeinit", "sig_cb", "sig_during_handler", "sig_handoff", "wait_cb",
	"pid_reused", "kill_dead", "work_run", "work_done", "pool_put_busy", "idle_timeout",
	"pump_bytes", "pump_full", "pump_eof", "inot_cb", "inot_multi", "popen_kill",
	"reg_failed_event", "timer_many", "radix_cross", "sig_nowalk", "sig_foreign_thread", "reg_failed_ext", "timer_parked", "reenter_after_quit", "pump_kick", "work_depends", "task_foreign_init", "inot_flood", "unreg_event_post_in_flight",
};

extern int __llvm_profile_write_file(void) __attribute__((weak));

/* cross-thread posts on iv_events that are in flight: which object each thread is posting to, and whether
 * that post has already left the critical section in which it queues the event (from then on the
 * unchanged library does not touch the event any more, and its owner may free it) */
static int posting_obj[SIMK_MAXT];
static int post_unlocked[SIMK_MAXT];

void engine_lock_event(int tid, int acquired, int spin)
{
	if (!spin && !acquired && tid >= 0 && tid < SIMK_MAXT && posting_obj[tid] && !post_unlocked[tid]) {
		post_unlocked[tid] = 1;
		RO[posting_obj[tid] - 1].xi[0]++;
	}
}

long faults_fired_total(void)
{
	long n = 0;
	int i;
	for (i = 0; i < FS_MAX; i++)
		n += simk_stats.fault_fired[i];
	return n;
}

/* a registration call whose only ways to fail are injected faults reported failure: was anything made to fail? */
void unexplained_failure(const char *what, int id, long fired_before)
{
	if (faults_fired_total() == fired_before)
		viol("ANY.spurious_failure", "%s (obj %d) reported failure although nothing was made to fail", what, id);
}

int reg_fault_arm(int id, int want, int site, int err)
{
	if (PL->obj[id].p[7] != want || RO[id].attempts++ != 0)
		return 0;
	simk_fault_once(site, err);
	return 1;
}
void reg_fault_disarm(int site)
{
	simk_fault_once_pending(site);
}

/* ---- violations / result ------------------------------------------------------- */
void viol(const char *id, const char *fmt, ...)
{
	va_list ap;

	if (nviol >= 8)
		return;
	snprintf(viol_id[nviol], sizeof(viol_id[0]), "%s", id);
	va_start(ap, fmt);
	vsnprintf(viol_desc[nviol], sizeof(viol_desc[0]), fmt, ap);
	va_end(ap);
	if (VERBOSE)
		fprintf(stderr, "VIOL %s: %s\n", viol_id[nviol], viol_desc[nviol]);
	nviol++;
}
int have_viol(void) { return nviol; }

static const char *evname(int k)
{
	switch (k) {
	case 1: return "thread_new"; case 2: return "join"; case 3: return "detach";
	case 4: return "lock"; case 5: return "clock"; case 6: return "wait_enter";
	case 7: return "wait_ret"; case 8: return "tfd_set"; case 9: return "close";
	case 10: return "epoll_ctl"; case 20: return "tfd_fire"; case 21: return "advance";
	case 22: return "work"; case 30: return "thread_exit"; case 40: return "fault";
	case 50: return "sigaction"; case 51: return "sig_deliver"; case 54: return "sig_pend";
	case 60: return "child_die"; case 61: return "child_new"; case 64: return "reap";
	case 65: return "kill"; case 66: return "kill_reaped";
	case 100: return "cb"; case 101: return "op"; case 102: return "main_enter";
	case 103: return "main_return"; case 104: return "init"; case 105: return "deinit";
	case 106: return "quiesce"; case 107: return "teardown"; case 108: return "cb_exit";
	}
	return "ev";
}

void finish(int status)
{
	struct simk_shared *sh = simk_shared();
	char *o = sh->result;
	int cap = (int)sizeof(sh->result), n = 0, i;

	if (finishing)
		_exit(status == 1 ? 3 : 0);
	finishing = 1;
	simk_finish_stats();
	if (nviol > 0 && status == 0)
		status = 1;
	n += snprintf(o + n, cap - n, "R status=%d hash=%016" PRIx64 " shash=%016" PRIx64
		      " steps=%ld switches=%ld advances=%ld vtime=%" PRId64 " decisions=%ld"
		      " waits=%ld blocked=%ld eintr=%ld libthreads=%ld trunc=%ld shortio=%ld"
		      " tfd_armed=%ld tfd_cleared=%ld tfd_nudged=%ld tfd_fired=%ld sigs=%ld sigdel=%ld"
		      " forks=%ld reaps=%ld pidreuse=%ld method=%s\n",
		      status, sh->loghash, sh->schedhash, sh->stats.steps, sh->stats.switches,
		      sh->stats.advances, sh->stats.vtime, sh->stats.decisions, sh->stats.waits,
		      sh->stats.waits_blocked, sh->stats.eintr, sh->stats.lib_threads,
		      sh->stats.batch_truncated, sh->stats.short_ios, sh->stats.timerfd_armed,
		      sh->stats.timerfd_cleared, sh->stats.timerfd_nudged, sh->stats.timerfd_fired,
		      sh->stats.sig_sent, sh->stats.sig_delivered, sh->stats.forks, sh->stats.reaps,
		      sh->stats.pid_reused, iv_poll_method_name() ? iv_poll_method_name() : "-");
	for (i = 0; i < nviol; i++)
		n += snprintf(o + n, cap - n, "V %s %s\n", viol_id[i], viol_desc[i]);
	n += snprintf(o + n, cap - n, "P");
	for (i = 0; i < PR_MAX; i++)
		if (PROBE[i])
			n += snprintf(o + n, cap - n, " %s=%ld", probe_names[i], PROBE[i]);
	n += snprintf(o + n, cap - n, "\nC");
	for (i = 0; i < K_MAX; i++)
		if (CBS[i])
			n += snprintf(o + n, cap - n, " %s=%ld", kind_name(i), CBS[i]);
	n += snprintf(o + n, cap - n, "\nO");
	for (i = 0; i < OP_MAX; i++)
		if (OPS[i])
			n += snprintf(o + n, cap - n, " %s=%ld", op_name(i), OPS[i]);
	n += snprintf(o + n, cap - n, "\nF");
	for (i = 0; i < FS_MAX; i++)
		if (sh->stats.fault_fired[i])
			n += snprintf(o + n, cap - n, " %d=%ld", i, sh->stats.fault_fired[i]);
	n += snprintf(o + n, cap - n, "\n");
	if (status == 1 || VERBOSE) {
		int back, kind, tid;
		int64_t a, b, t;
		for (back = VERBOSE > 1 ? 1500 : 59; back >= 0; back--) {
			long idx = simk_ring(back, &kind, &tid, &a, &b, &t);
			if (idx < 0)
				continue;
			n += snprintf(o + n, cap - n, "L #%ld t%d @%" PRId64 " %s %" PRId64 " %" PRId64 "\n",
				      idx, tid, t - simk_vstart(), evname(kind), a, b);
			if (n > cap - 400)
				break;

		}
	}
	n += snprintf(o + n, cap - n, "END\n");
	sh->result_len = n;
	if (__llvm_profile_write_file)
		__llvm_profile_write_file();	/* coverage flavour: the run's counters are merged into the pool file */
	_exit(status == 1 ? 3 : 0);
}

/* The application is responsible for ordering "object registered" before another
 * thread posts to it, and "posters are done" before the owner unregisters it.  The
 * simulator's scheduler is invisible to ThreadSanitizer, so these hand-offs of the
 * harness itself are declared to it explicitly (TSan flavour only). */
extern void __tsan_acquire(void *addr) __attribute__((weak));
extern void __tsan_release(void *addr) __attribute__((weak));
void hb_release(void *a) { if (__tsan_release) __tsan_release(a); }
void hb_acquire(void *a) { if (__tsan_acquire) __tsan_acquire(a); }

/* ---- helpers ---------------------------------------------------------------------- */
struct rthr *cur_thr(void)
{
	int s = simk_self();
	if (s < 0 || s >= SIMK_MAXT || sim2plan[s] < 0)
		return NULL;
	return &RT[sim2plan[s]];
}
static int thr_idx(struct rthr *th) { return (int)(th - RT); }

int live_objects(struct rthr *th)
{
	int i, n = 0, t = thr_idx(th);
	for (i = 0; i < PL->nobj; i++)
		if (PL->obj[i].owner == t)
			switch (PL->obj[i].kind) {
			case K_FD: case K_TIMER: case K_TASK: case K_EVENT: case K_RAW:
				n += RO[i].registered;
				break;
			case K_NONE: case K_CHAN:
				break;
			default:
				n += ext_live(i);
			}
	if (th->td_registered)
		n++;
	n += th->ext_live;
	return n;
}

/* upper bound: objects whose library-internal loop references may or may not be gone yet */
int live_upper(struct rthr *th)
{
	int i, n = live_objects(th), t = thr_idx(th);
	for (i = 0; i < PL->nobj; i++)
		if (PL->obj[i].owner == t)
			n += ext_maybe_live(i);
	return n;
}

static int64_t ts_ns(const struct timespec *ts)
{
	return (int64_t)ts->tv_sec * 1000000000LL + ts->tv_nsec;
}
static void ns_ts(int64_t ns, struct timespec *ts)
{
	ts->tv_sec = ns / 1000000000LL;
	ts->tv_nsec = ns % 1000000000LL;
}

/* freed-object table for ASan report classification */
#define NFREED 4096
static struct { uintptr_t a; size_t n; int kind; } freed[NFREED];
static int nfreed;
void note_freed_kind(void *p, size_t n, int kind)
{
	if (nfreed < NFREED) {
		freed[nfreed].a = (uintptr_t)p;
		freed[nfreed].n = n;
		freed[nfreed].kind = kind;
		nfreed++;
	}
}
void note_freed(void *p, size_t n) { note_freed_kind(p, n, K_NONE); }
void obj_free_mem(int id)
{
	struct robj *o = &RO[id];
	if (o->mem != NULL) {
		note_freed_kind(o->mem, o->memsz, PL->obj[id].kind);
		free(o->mem);
		o->mem = NULL;
	}
}

struct cookie *new_cookie(int id)
{
	struct cookie *c = malloc(sizeof(*c));
	c->magic = COOKIE_MAGIC;
	c->id = id;
	c->gen = RO[id].gen;
	RO[id].ck = c;
	return c;
}

/* The harness's own descriptor I/O uses raw system calls: it is the environment, not the
 * system under test, and must not show up as synchronisation (or as races) in TSan. */
static int raw_poll0(struct pollfd *p, int n)
{
	struct timespec z = { 0, 0 };
	return (int)syscall(SYS_ppoll, p, (long)n, &z, NULL, 8L);
}
#define raw_read(fd, b, n)	syscall(SYS_read, (long)(fd), (b), (long)(n))
#define raw_write(fd, b, n)	syscall(SYS_write, (long)(fd), (b), (long)(n))
#define raw_close(fd)		syscall(SYS_close, (long)(fd))

/* ---- ground truth --------------------------------------------------------------- */
static int band_truth(int revents)
{
	int t = 0;
	if (revents & (POLLIN | POLLHUP | POLLERR))
		t |= 1;
	if (revents & (POLLOUT | POLLHUP | POLLERR))
		t |= 2;
	if (revents & (POLLHUP | POLLERR))
		t |= 4;
	return t;
}
static int fd_truth(int fd)
{
	struct pollfd p = { fd, POLLIN | POLLOUT, 0 };
	if (raw_poll0(&p, 1) < 0)
		return 0;
	if (p.revents & POLLNVAL)
		return 0;
	return band_truth(p.revents);
}

/* ---- channels ------------------------------------------------------------------------ */
static void chan_create(int id)
{
	struct robj *o = &RO[id];
	int type = (int)PL->obj[id].p[0];
	int fd[2] = { -1, -1 };

	o->ctype = type;
	switch (type) {
	case 0:
		if (pipe(fd) < 0)
			abort();
		if (PL->obj[id].p[1] > 0)
			fcntl(fd[1], F_SETPIPE_SZ, (int)PL->obj[id].p[1]);
		break;
	case 1:
		if (socketpair(AF_UNIX, SOCK_STREAM, 0, fd) < 0)
			abort();
		break;
	case 2:
		fd[0] = eventfd(0, 0);
		fd[1] = fd[0];
		break;
	case 3:	/* dead descriptor number: one that was open a moment ago, so that it will be handed out again */
		{
			int t, nloops = 0;
			for (t = 0; t < PL->nthr; t++)
				if (PL->thr[t].kind == 'L')
					nloops++;
			/* only with a single loop thread: otherwise another thread's library descriptor could take
			 * the number while the registration attempt is in progress, and the harness would register
			 * somebody else's descriptor (an application bug, not a library one) */
			if (nloops != 1 || !(PL->seed & 4)) {
				fd[0] = fd[1] = 1000 + id;
				break;
			}
		}
		{
			int p2[2];
			if (pipe(p2) == 0) {
				raw_close(p2[0]);
				raw_close(p2[1]);
				fd[0] = fd[1] = p2[0];
				break;
			}
		}
		fd[0] = fd[1] = 1000 + id;
		break;
	case 4:	/* a file that epoll refuses (EPERM) */
		fd[0] = open("/dev/null", O_RDWR);
		fd[1] = fd[0];
		break;
	}
	o->cfd[0] = fd[0];
	o->cfd[1] = fd[1];
	o->copen[0] = o->copen[1] = (type != 3);
	o->registered = 1;
}

static int chan_end_in_use(int chan, int end)
{
	int i;
	for (i = 0; i < PL->nobj; i++)
		if (PL->obj[i].kind == K_FD && (RO[i].registered || RO[i].xi[7]) && RO[i].xi[4] == chan &&
		    (RO[i].xi[5] == end || RO[chan].ctype >= 2))
			return 1;
	for (i = 0; i < PL->nobj; i++)
		if (PL->obj[i].kind == K_PUMP && RO[i].registered &&
		    ((PL->obj[i].p[0] == chan && PL->obj[i].p[1] == end) ||
		     (PL->obj[i].p[2] == chan && PL->obj[i].p[3] == end)))
			return 1;
	return 0;
}

long chan_write(int chan, int end, long n)
{
	struct robj *c = &RO[chan];
	int fd = c->cfd[end];
	struct pollfd p = { fd, POLLOUT, 0 };
	char buf[65536];
	long r;

	if (!c->copen[end] || c->ctype >= 3)
		return -1;
	if (c->ctype == 2) {
		uint64_t v = (uint64_t)(n > 0 ? n : 1);
		return raw_write(fd, &v, 8);
	}
	if (raw_poll0(&p, 1) <= 0 || !(p.revents & POLLOUT) || (p.revents & (POLLERR | POLLHUP)))
		return -1;
	if (n > 65536)
		n = 65536;
	if (n < 1)
		n = 1;
	if (c->ctype == 0 && n > 4096)
		n = 4096;
	if (PL->obj[chan].p[2])
		ext4_stream_fill(chan, (unsigned char *)buf, n);
	else
		memset(buf, 0x5a, (size_t)n);
	if (c->ctype == 0) {
		r = raw_write(fd, buf, n);
	} else {
		r = syscall(SYS_sendto, (long)fd, buf, (long)n, (long)(MSG_DONTWAIT | MSG_NOSIGNAL), NULL, 0L);
	}
	if (PL->obj[chan].p[2])
		ext4_stream_written(chan, r);
	return r;
}

long chan_read(int chan, int end, long n)
{
	struct robj *c = &RO[chan];
	int fd = c->cfd[end];
	struct pollfd p = { fd, POLLIN, 0 };
	char buf[65536];

	if (!c->copen[end] || c->ctype >= 3)
		return -1;
	if (raw_poll0(&p, 1) <= 0 || !(p.revents & (POLLIN | POLLHUP)))
		return -1;
	if (c->ctype == 2)
		n = 8;
	if (n > 65536)
		n = 65536;
	if (n < 1)
		n = 1;
	{
		long r = raw_read(fd, buf, n);
		if (r >= 0 && c->ctype < 2)
			ext4_stream_verify(chan, (unsigned char *)buf, r);
		return r;
	}
}

/* ---- handlers ------------------------------------------------------------------------- */
static void cb_enter(void *ck, int kind, int band, int var, int64_t x1, int64_t x2);

#define FDH(name, band, var) static void name(void *c) { cb_enter(c, K_FD, band, var, 0, 0); }
FDH(h_in_a, 0, 1) FDH(h_in_b, 0, 2)
FDH(h_out_a, 1, 1) FDH(h_out_b, 1, 2)
FDH(h_err_a, 2, 1) FDH(h_err_b, 2, 2)
static void (*fd_handler[3][3])(void *) = {
	{ NULL, h_in_a, h_in_b }, { NULL, h_out_a, h_out_b }, { NULL, h_err_a, h_err_b },
};
static void h_timer(void *c) { cb_enter(c, K_TIMER, 0, 0, 0, 0); }
static void h_task(void *c) { cb_enter(c, K_TASK, 0, 0, 0, 0); }
static void h_event(void *c) { cb_enter(c, K_EVENT, 0, 0, 0, 0); }
static void h_raw(void *c) { cb_enter(c, K_RAW, 0, 0, 0, 0); }
void generic_cb(void *ck, int kind, int band, int64_t x1, int64_t x2)
{
	cb_enter(ck, kind, band, 0, x1, x2);
}

static const char *thread_viol(int kind)
{
	switch (kind) {
	case K_FD: return "C03.thread";
	case K_TIMER: return "C04.thread";
	case K_TASK: return "C06.thread";
	case K_EVENT: return "C08.thread";
	case K_RAW: return "C09.thread";
	case K_SIGNAL: return "C10.thread";
	case K_WAIT: return "C11.thread";
	case K_ITEM: return "C12.completion_thread";
	case K_WATCH: return "C20.thread";
	}
	return "C07.thread";
}

/* ---- operations ----------------------------------------------------------------------- */
static int starve_threshold(struct rthr *th)
{
	int i, n = 0, t = thr_idx(th);
	if (!PL->cfg.batch_trunc)
		return 3;
	for (i = 0; i < PL->nobj; i++)
		if (PL->obj[i].kind == K_FD && PL->obj[i].owner == t && RO[i].registered)
			n++;
	return n + 4;
}

static int op_reg(struct rthr *th, int id, const struct pop *op)
{
	struct robj *o = &RO[id];
	const struct pobj *po = &PL->obj[id];
	int t = thr_idx(th);

	if (o->registered || po->owner != t || !th->inited)
		return 0;
	if (o->ncb >= CB_LIMIT)
		return 0;	/* bound the run: an object that fired this often is not armed again */
	switch (po->kind) {
	case K_FD: {
		struct iv_fd *f;
		int chan = (int)po->p[0], end = (int)po->p[1], fd, fl, i, ret, try = (int)op->a;
		struct robj *c;

		/* "fix ->fd and try again": after a failed attempt on a descriptor that cannot be polled, the
		 * application points the same structure at its fall-back descriptor (p[6] = channel + 1) */
		if (RO[chan].ctype >= 3 && o->xi[6] && po->p[6] > 0 && po->p[6] <= PL->nobj &&
		    PL->obj[po->p[6] - 1].kind == K_CHAN && RO[po->p[6] - 1].ctype < 3) {
			chan = (int)po->p[6] - 1;
			end = RO[chan].ctype >= 2 ? 0 : (int)(po->p[7] & 1);
		}
		c = &RO[chan];

		if (RO[chan].ctype >= 3)
			try = 1;	/* only the _try variant may be used on descriptors that cannot be polled */
		if (!c->copen[end] && c->ctype != 3)
			return 0;
		if (c->ctype == 3 && fcntl(c->cfd[end], F_GETFD) != -1)
			return 0;	/* the number has been reused meanwhile: it is somebody's live descriptor now */
		if (chan_end_in_use(chan, end))
			return 0;
		fd = c->cfd[end];
		if (c->ctype < 3) {
			/* make the descriptor blocking and inheritable: the library must fix that */
			fl = fcntl(fd, F_GETFL);
			fcntl(fd, F_SETFL, fl & ~O_NONBLOCK);
			fl = fcntl(fd, F_GETFD);
			fcntl(fd, F_SETFD, fl & ~FD_CLOEXEC);
		}
		if (o->mem == NULL) {
			o->memsz = sizeof(struct iv_fd);
			o->mem = malloc(o->memsz);
			memset(o->mem, 0xA5, o->memsz);
			IV_FD_INIT(o->mem);
		} else {
			PROBE[PR_REINIT_REUSE]++;
			if (op->b)
				IV_FD_INIT(o->mem);
		}
		f = o->mem;
		f->fd = fd;
		f->cookie = new_cookie(id);
		for (i = 0; i < 3; i++)
			o->hv[i] = (int)po->p[2 + i];
		if (op->c) {
			/* per-registration override of the initial handlers: c = 1 + in + 3*out + 9*err */
			int v = (int)op->c - 1;
			o->hv[0] = v % 3; o->hv[1] = (v / 3) % 3; o->hv[2] = (v / 9) % 3;
		}
		f->handler_in = fd_handler[0][o->hv[0]];
		f->handler_out = fd_handler[1][o->hv[1]];
		f->handler_err = fd_handler[2][o->hv[2]];
		o->xi[4] = chan;
		o->xi[5] = end;
		if (try) {
			th->api_try = 1;
			o->xi[7] = 1;	/* the descriptor is spoken for while the call is in progress (it yields) */
			ret = iv_fd_register_try(f);
			o->xi[7] = 0;
			th->api_try = 0;
			if (ret != 0) {
				if (c->ctype < 3)
					viol("ANY.spurious_failure", "iv_fd_register_try (fd obj %d, descriptor %d) reported failure for an open descriptor that can be polled", id, fd);
				PROBE[PR_TRY_FAILED]++;
				o->xi[6] = 1;
				if (!po->p[5])
					obj_free_mem(id);	/* else: the structure is kept and reused as it is */
				simk_log(101, OP_REG, -id - 1);
				return 1;
			}
		} else {
			iv_fd_register(f);
		}
		o->registered = 1;
		o->fdnum = fd;
		o->xi[4] = chan;
		o->xi[5] = end;
		o->snap_round = -1;
		for (i = 0; i < 3; i++) {
			o->last_cb_round[i] = -1;
			o->starve[i] = 0;
			o->hchanged[i] = 1;
			o->entered[i] = 0;
		}
		if (c->ctype < 3) {
			if (!(fcntl(fd, F_GETFL) & O_NONBLOCK))
				viol("C18.flags", "fd obj %d: descriptor %d not O_NONBLOCK after registration", id, fd);
			if (!(fcntl(fd, F_GETFD) & FD_CLOEXEC))
				viol("C18.flags", "fd obj %d: descriptor %d not FD_CLOEXEC after registration", id, fd);
		}
		break;
	}
	case K_TIMER: {
		struct iv_timer *tm;
		struct timespec ts;
		int64_t e;

		if (o->mem == NULL) {
			o->memsz = sizeof(struct iv_timer);
			o->mem = malloc(o->memsz);
			memset(o->mem, 0xA5, o->memsz);
			IV_TIMER_INIT(o->mem);
		} else {
			PROBE[PR_REINIT_REUSE]++;
		}
		tm = o->mem;
		switch ((int)op->a) {
		default:
		case 0:
			iv_validate_now();
			ts = iv_now;
			e = ts_ns(&ts) + op->b;
			break;
		case 1:
			e = simk_now() + op->b;
			break;
		case 2:
			e = op->b;
			break;
		case 3:
			iv_validate_now();
			ts = iv_now;
			e = ts_ns(&ts) - op->b;
			break;
		case 4:
			/* a parked timer: an expiry so far away that it never fires (beyond what fits in 64
			 * bits of nanoseconds); the model keeps it as "never" */
			e = PARKED_NS;
			break;
		}
		if (e < 0)
			e = 0;
		if (e == PARKED_NS) {
			iv_validate_now();
			tm->expires.tv_nsec = (long)(op->b % 1000000000LL);
			switch ((int)(op->b % 3)) {
			case 0: tm->expires.tv_sec = iv_now.tv_sec + 400LL * 366 * 86400; break;	/* now + 400 years */
			case 1: tm->expires.tv_sec = (time_t)INT64_MAX; break;
			default: tm->expires.tv_sec = (time_t)(INT64_MAX / 1000000000LL) + 1 + (time_t)(op->b % 1000); break;	/* just past 2^63 ns */
			}
			PROBE[PR_TIMER_PARKED]++;
		} else
			ns_ts(e, &tm->expires);
		tm->cookie = new_cookie(id);
		tm->handler = h_timer;
		iv_timer_register(tm);
		o->registered = 1;
		o->expiry = e;
		o->reg_seq = SEQ;
		break;
	}
	case K_TASK: {
		struct iv_task *tk;
		if (o->mem == NULL) {
			o->memsz = sizeof(struct iv_task);
			o->mem = malloc(o->memsz);
			memset(o->mem, 0xA5, o->memsz);
			IV_TASK_INIT(o->mem);
		} else {
			PROBE[PR_REINIT_REUSE]++;
			if (op->b)
				IV_TASK_INIT(o->mem);
		}
		tk = o->mem;
		tk->cookie = new_cookie(id);
		tk->handler = h_task;
		iv_task_register(tk);
		o->registered = 1;
		o->reg_seq = SEQ;
		if (th->depth > 0 && th->cur_kind == K_TASK)
			PROBE[PR_TASK_DEFERRED_REG]++;
		break;
	}
	case K_EVENT: {
		struct iv_event *ev;
		int ret;
		o->memsz = sizeof(struct iv_event);
		if (o->mem == NULL) {
			o->mem = malloc(o->memsz);
			memset(o->mem, 0xA5, o->memsz);
		}
		ev = o->mem;
		IV_EVENT_INIT(ev);
		ev->cookie = new_cookie(id);
		ev->handler = h_event;
		long ff0 = faults_fired_total();
		ret = iv_event_register(ev);
		if (ret != 0) {
			unexplained_failure("iv_event_register", id, ff0);
			PROBE[PR_REG_FAILED_EVENT]++;
			obj_free_mem(id);
			simk_log(101, OP_REG, -id - 1);
			return 1;
		}
		o->registered = 1;
		o->posts = o->entries = 0;
		o->xi[0] = o->xi[1] = 0;
		o->post_begin_seq = o->post_done_seq = o->last_entry_seq = 0;
		hb_release(o);
		break;
	}
	case K_RAW: {
		struct iv_event_raw *ev;
		int ret;
		o->memsz = sizeof(struct iv_event_raw);
		if (o->mem == NULL) {
			o->mem = malloc(o->memsz);
			memset(o->mem, 0xA5, o->memsz);
		}
		ev = o->mem;
		IV_EVENT_RAW_INIT(ev);
		ev->cookie = new_cookie(id);
		ev->handler = h_raw;
		long ff0 = faults_fired_total();
		ret = iv_event_raw_register(ev);
		if (ret != 0) {
			unexplained_failure("iv_event_raw_register", id, ff0);
			PROBE[PR_REG_FAILED_EVENT]++;
			obj_free_mem(id);
			simk_log(101, OP_REG, -id - 1);
			return 1;
		}
		o->registered = 1;
		o->posts = o->entries = 0;
		o->post_begin_seq = o->post_done_seq = o->last_entry_seq = 0;
		hb_release(o);
		break;
	}
	default:
		return ext_reg(th, id, op);
	}
	if (th->depth > 0)
		PROBE[PR_REG_IN_CB]++;
	simk_log(101, OP_REG, id);
	return 1;
}

int op_unreg(struct rthr *th, int id, int keep)
{
	struct robj *o = &RO[id];
	const struct pobj *po = &PL->obj[id];
	int t = thr_idx(th);

	if (!o->registered || po->owner != t || !th->inited)
		return 0;
	switch (po->kind) {
	case K_FD:
		if (th->depth > 0 && o->snap_round == th->round && (o->snap_truth & 7))
			PROBE[PR_UNREG_READY_FD]++;
		iv_fd_unregister(o->mem);
		break;
	case K_TIMER:
		if (th->have_clock && o->expiry <= th->last_clock && th->depth > 0 && th->cur_kind == K_TIMER)
			PROBE[PR_UNREG_EXPIRED_TIMER]++;
		iv_timer_unregister(o->mem);
		break;
	case K_TASK:
		if (th->depth > 0)
			PROBE[PR_UNREG_PENDING_TASK]++;
		iv_task_unregister(o->mem);
		break;
	case K_EVENT:
		if (PL->obj[id].p[0] == 2 && th->depth > 0 && th->cur_obj == id && th->cur_kind == K_EVENT &&
		    o->posting == (int)o->xi[0] && !teardown_phase && !th->post_main) {
			/* a one-shot event that other threads post to: its handler may unregister and free it,
			 * also while posts that have already queued it are still on their way out */
			if (o->posting > 0)
				PROBE[PR_UNREG_INFLIGHT]++;
			o->closing = 1;		/* from this instant no other thread starts a post on it */
		} else
		if (PL->obj[id].p[0] && !teardown_phase && !th->post_main)
			return 0;	/* pinned */
		hb_acquire(o);
		if (o->post_begin_seq > o->last_entry_seq)
			PROBE[PR_UNREG_POSTED_EVENT]++;
		iv_event_unregister(o->mem);
		break;
	case K_RAW:
		if (PL->obj[id].p[0] && !teardown_phase && !th->post_main)
			return 0;
		hb_acquire(o);
		if (o->post_begin_seq > o->last_entry_seq)
			PROBE[PR_UNREG_POSTED_EVENT]++;
		iv_event_raw_unregister(o->mem);
		break;
	default:
		return ext_unreg(th, id, keep);
	}
	o->registered = 0;
	o->closing = 0;
	o->gen++;
	if (th->depth > 0)
		PROBE[PR_UNREG_IN_CB]++;
	if (!keep && !(po->kind == K_FD && po->p[5]) &&
	    !((po->kind == K_TIMER || po->kind == K_TASK) && po->p[0]))
		obj_free_mem(id);
	simk_log(101, OP_UNREG, id);
	return 1;
}

static int op_seth(struct rthr *th, int id, int band, int var)
{
	struct robj *o = &RO[id];
	if (PL->obj[id].kind != K_FD || !o->registered || PL->obj[id].owner != thr_idx(th) ||
	    band < 0 || band > 2 || var < 0 || var > 2)
		return 0;
	if (var != 0 && o->ncb >= CB_LIMIT)
		return 0;
	o->hv[band] = var;
	o->hchanged[band] = 1;
	if (band == 0)
		iv_fd_set_handler_in(o->mem, fd_handler[0][var]);
	else if (band == 1)
		iv_fd_set_handler_out(o->mem, fd_handler[1][var]);
	else
		iv_fd_set_handler_err(o->mem, fd_handler[2][var]);
	if (th->depth > 0)
		PROBE[PR_SETH_IN_CB]++;
	simk_log(101, OP_SETH, id * 16 + band * 4 + var);
	return 1;
}

int op_post(struct rthr *th, int id, int limited)
{
	struct robj *o = &RO[id];
	const struct pobj *po = &PL->obj[id];
	int mine = th != NULL && po->owner == thr_idx(th);

	if (!o->registered)
		return 0;
	if (po->kind != K_EVENT && po->kind != K_RAW)
		return 0;
	if (!mine && !po->p[0])
		return 0;	/* only pinned objects may be posted to from other threads */
	if ((teardown_started || o->closing) && !mine)
		return 0;
	if (po->kind == K_EVENT && po->p[0] == 2 && o->xi[1] >= 1)
		return 0;	/* a one-shot event gets exactly one post in its life (from its owner or from outside):
				 * only then does a running handler prove that the post has been queued, and only
				 * then is freeing the event from the handler the application's right */
	if (limited && o->posts >= 4 * CB_LIMIT)
		return 0;
	if (o->post_begin_seq > o->last_entry_seq)
		PROBE[PR_POST_COALESCED]++;
	PROBE[mine ? PR_POST_SELF : PR_POST_CROSS]++;
	o->posts++;
	o->post_begin_seq = ++SEQ;
	o->posting++;
	simk_log(101, OP_POST, id);
	if (!mine)
		hb_acquire(o);
	if (po->kind == K_EVENT) {
		int self = simk_self();
		o->xi[1]++;
		if (!mine) {
			posting_obj[self] = id + 1;
			post_unlocked[self] = 0;
		}
		iv_event_post(o->mem);
		if (!mine) {
			if (post_unlocked[self])
				o->xi[0]--;
			posting_obj[self] = 0;
		}
	} else
		iv_event_raw_post(o->mem);
	if (!mine)
		hb_release(o);
	o->posting--;
	/* the post is complete: from here on the owner may not block without delivering it */
	if (o->registered && o->post_done_seq < o->post_begin_seq && !o->posting)
		o->post_done_seq = o->post_begin_seq;
	return 1;
}

int exec_op(struct rthr *th, const struct pop *op)
{
	int r = 0;

	if (have_viol())
		return 0;
	switch (op->op) {
	case OP_REG:
		if (th && op->d >= 0 && op->d < PL->nobj)
			r = op_reg(th, (int)op->d, op);
		break;
	case OP_UNREG:
		if (th && op->d >= 0 && op->d < PL->nobj)
			r = op_unreg(th, (int)op->d, (int)op->a);
		break;
	case OP_SETH:
		if (th && op->d >= 0 && op->d < PL->nobj)
			r = op_seth(th, (int)op->d, (int)op->a, (int)op->b);
		break;
	case OP_POST:
		if (op->d >= 0 && op->d < PL->nobj && PL->obj[op->d].kind == K_PUMP)
			r = ext4_pump_kick(th, (int)op->d);	/* the application calls the pump without a readiness event */
		else if (op->d >= 0 && op->d < PL->nobj)
			r = op_post(th, (int)op->d, 1);
		break;
	case OP_QUIT:
		if (th && th->inited && th->in_main) {
			iv_quit();
			th->quit_req = 1;
			PROBE[PR_QUIT]++;
			simk_log(101, OP_QUIT, 0);
			r = 1;
		}
		break;
	case OP_CONSUME:
		if (PL->obj[op->d].kind == K_CHAN)
			r = chan_read((int)op->d, (int)op->a, (long)op->b) >= 0;
		simk_log(101, OP_CONSUME, op->d);
		break;
	case OP_PRODUCE:
		if (PL->obj[op->d].kind == K_CHAN)
			r = chan_write((int)op->d, (int)op->a, (long)op->b) >= 0;
		simk_log(101, OP_PRODUCE, op->d);
		break;
	case OP_CLOSE: {
		struct robj *c = &RO[op->d];
		int end = (int)op->a;
		if (PL->obj[op->d].kind != K_CHAN || c->ctype >= 2 || !c->copen[end] ||
		    chan_end_in_use((int)op->d, end))
			break;
		raw_close(c->cfd[end]);
		c->copen[end] = 0;
		ext4_chan_closed((int)op->d, end, 0);
		PROBE[PR_FD_HUP]++;
		simk_log(101, OP_CLOSE, op->d * 2 + end);
		r = 1;
		break;
	}
	case OP_SHUTDOWN: {
		struct robj *c = &RO[op->d];
		int end = (int)op->a;
		if (PL->obj[op->d].kind != K_CHAN || c->ctype != 1 || !c->copen[end])
			break;
		syscall(SYS_shutdown, (long)c->cfd[end], (long)op->b);
		if (op->b != SHUT_RD)
			ext4_chan_closed((int)op->d, end, 1);
		PROBE[PR_FD_HUP]++;
		simk_log(101, OP_SHUTDOWN, op->d * 2 + end);
		r = 1;
		break;
	}
	case OP_WORK:
		simk_work(op->a);
		r = 1;
		break;
	case OP_INVAL:
		if (th && th->inited) {
			iv_invalidate_now();
			r = 1;
		}
		break;
	case OP_SLEEP:
		if (th == NULL || !th->in_main) {
			simk_sleep(op->a);
			r = 1;
		}
		break;
	case OP_YIELD:
		simk_yield();
		r = 1;
		break;
	case OP_COOKIE: {
		struct robj *o = &RO[op->d];
		if (th && PL->obj[op->d].kind == K_FD && o->registered && PL->obj[op->d].owner == thr_idx(th)) {
			((struct iv_fd *)o->mem)->cookie = new_cookie((int)op->d);
			r = 1;
		}
		break;
	}
	default:
		r = ext_op(th, op);
		break;
	}
	if (r)
		OPS[op->op]++;
	return r;
}

void note_progress(struct rthr *th)
{
	if (th != NULL && th->sim > 0)
		th->steps_at_progress = simk_thread_steps(th->sim);
}

static void run_actions(struct rthr *th, int ctx, int ctxid, int when)
{
	int i;
	for (i = 0; i < PL->nops && !have_viol(); i++) {
		const struct pop *op = &PL->ops[i];
		if (op->ctx != ctx || op->ctxid != ctxid)
			continue;
		if (ctx == CTX_CB && op->when != 0 && op->when != when)
			continue;
		if (ctx == CTX_SETUP && op->when != 0 && op->when != th->cycle + 1)
			continue;
		note_progress(th);
		exec_op(th, op);
		note_progress(th);
	}
}

/* ---- callback entry: the central oracle point ------------------------------------------ */
static void cb_enter(void *ckp, int kind, int band, int var, int64_t x1, int64_t x2)
{
	struct cookie *ck = ckp;
	struct rthr *th = cur_thr();
	struct robj *o;
	const struct pobj *po;
	int id, stale = 0;

	SEQ++;
	note_progress(th);
	if (ck == NULL || ck->magic != COOKIE_MAGIC || ck->id < 0 || ck->id >= PL->nobj) {
		viol(kind == K_FD ? "C03.wrong_cookie" : "C01.stale_cb", "callback of kind %s with a bogus cookie", kind_name(kind));
		finish(1);
	}
	id = ck->id;
	o = &RO[id];
	po = &PL->obj[id];
	simk_log(100, id, kind * 16 + band * 4 + var);
	CBS[kind < K_MAX ? kind : 0]++;

	if (th == NULL) {
		/* a callback in a thread that is not a plan thread at all */
		if (!ext_foreign_thread_ok(id, kind))
			viol(thread_viol(kind), "obj %d (%s): handler invoked in a non-loop thread (sim %d)", id, kind_name(kind), simk_self());
		if (have_viol())
			finish(1);
		ext_cb(NULL, id, kind, band, x1, x2);
		if (have_viol())
			finish(1);
		return;
	}

	th->spin = 0;
	th->cbs++;
	if (!th->in_main)
		viol("C07.outside", "obj %d (%s): callback while thread %d is not inside iv_main", id, kind_name(kind), thr_idx(th));
	if (th->depth > 0 && !ext_nesting_ok(kind, th->cur_kind))
		viol("C07.nesting", "obj %d (%s): callback entered while another callback (obj %d) is running", id, kind_name(kind), th->cur_obj);
	if (po->owner != thr_idx(th) && !ext_foreign_thread_ok(id, kind))
		viol(thread_viol(kind), "obj %d (%s): handler invoked in thread %d, owner is %d", id, kind_name(kind), thr_idx(th), po->owner);
	if (po->kind != kind && !(po->kind == K_ITEM && kind == K_ITEM))
		viol("C01.stale_cb", "obj %d: callback kind %s does not match object kind %s", id, kind_name(kind), kind_name(po->kind));

	if (!o->registered || ck->gen != o->gen) {
		stale = 1;
		if (!ext_stale_ok(id, kind, band))
			viol("C01.stale_cb", "obj %d (%s): handler invoked %s (cookie gen %d, current gen %d)", id, kind_name(kind),
			     o->registered ? "through a stale registration" : "after unregister returned / while not registered", ck->gen, o->gen);
	}

	switch (kind) {
	case K_FD:
		PROBE[PR_FD_CB]++;
		if (stale) {
			viol("C03.unregistered", "fd obj %d: handler for band %d invoked while not registered", id, band);
			break;
		}
		if (o->ck != ck)
			viol("C03.wrong_cookie", "fd obj %d: handler got a cookie that is not the one currently set", id);
		if (o->hv[band] != var)
			viol("C03.wrong_handler", "fd obj %d band %d: entered handler variant %d, current handler is variant %d", id, band, var, o->hv[band]);
		if (o->snap_round != th->round)
			viol("C03.not_ready", "fd obj %d band %d: handler invoked although the descriptor was registered after the preceding kernel poll", id, band);
		else if (!(o->snap_truth & (1 << band)))
			viol("C03.not_ready", "fd obj %d band %d: handler invoked but the band's condition did not hold at the preceding kernel poll (truth=%d)", id, band, o->snap_truth);
		if (o->last_cb_round[band] == th->round)
			viol("C03.twice", "fd obj %d band %d: handler invoked twice in one loop iteration", id, band);
		o->last_cb_round[band] = th->round;
		o->entered[band] = 1;
		break;
	case K_TIMER: {
		PROBE[PR_TIMER_FIRED]++;
		if (stale)
			break;
		if (th->last_kind != K_TIMER || th->last_cb_wait != th->nwaits) {
			th->timer_round_seq = SEQ;
			th->timer_round_len = 0;
		}
		if (++th->timer_round_len == 2)
			PROBE[PR_MULTI_DUE]++;
		if (!th->have_clock || th->last_clock < o->expiry)
			viol("C04.early", "timer obj %d: handler invoked with the loop clock at %" PRId64 " before expiry %" PRId64, id, th->have_clock ? th->last_clock : -1, o->expiry);
		{
			int j;
			for (j = 0; j < PL->nobj; j++)
				if (j != id && PL->obj[j].kind == K_TIMER && PL->obj[j].owner == po->owner &&
				    RO[j].registered && RO[j].expiry < o->expiry && RO[j].reg_seq < th->timer_round_seq) {
					viol("C05.order", "timer obj %d (expiry %" PRId64 ") runs while timer obj %d with earlier expiry %" PRId64 ", registered before this dispatch round, is still waiting", id, o->expiry, j, RO[j].expiry);
					break;
				}
			ext_timer_order(th, id);
		}
		if (iv_timer_registered(o->mem))
			viol("C01.oneshot", "timer obj %d: still reported registered on entry to its handler", id);
		o->registered = 0;
		o->gen++;
		if (!po->p[0])
			obj_free_mem(id);
		break;
	}
	case K_TASK:
		PROBE[PR_TASK_RAN]++;
		if (stale)
			break;
		if (o->last_entry_waits == th->nwaits && o->last_entry_main == th->main_entries && o->ncb > 0)
			viol("C06.twice_per_round", "task obj %d: ran twice without a kernel poll in between (a re-registration by an already-run task was not deferred)", id);
		o->last_entry_waits = th->nwaits;
		o->last_entry_main = th->main_entries;
		if (iv_task_registered(o->mem))
			viol("C06.registered_on_entry", "task obj %d: still reported registered on entry to its handler", id);
		o->registered = 0;
		o->gen++;
		if (!po->p[0])
			obj_free_mem(id);
		break;
	case K_EVENT:
		PROBE[PR_EVENT_CB]++;
		if (stale)
			break;
		o->entries++;
		if (o->entries > o->posts)
			viol("C08.overdelivery", "event obj %d: handler invoked %ld times for %ld posts", id, o->entries, o->posts);
		o->last_entry_seq = SEQ;
		break;
	case K_RAW:
		PROBE[PR_RAW_CB]++;
		if (stale)
			break;
		o->entries++;
		o->last_entry_seq = SEQ;
		break;
	default:
		break;
	}

	o->ncb++;
	if (have_viol())
		finish(1);

	{
		int save_kind = th->cur_kind, save_obj = th->cur_obj;
		th->depth++;
		th->cur_kind = kind;
		th->cur_obj = id;
		ext_cb(th, id, kind, band, x1, x2);
		if (!have_viol() && o->ncb <= 2 * CB_LIMIT)
			run_actions(th, CTX_CB, id, (int)o->ncb);
		/* level-triggered storms are cut off after CB_LIMIT invocations */
		if (kind == K_FD && o->registered && o->ncb >= CB_LIMIT && o->hv[band] && !have_viol())
			op_seth(th, id, band, 0);
		ext_cb_exit(th, id, kind);
		th->depth--;
		th->cur_kind = save_kind;
		th->cur_obj = save_obj;
	}
	th->last_kind = kind;
	th->last_cb_wait = th->nwaits;
	simk_log(108, id, 0);
	if (have_viol())
		finish(1);
}

/* ---- observation hooks from simk ------------------------------------------------------------ */
static void obs_wait_enter(int tid, int prim, int64_t tmo, int nfds)
{
	struct rthr *th = sim2plan[tid] >= 0 ? &RT[sim2plan[tid]] : NULL;
	(void)prim; (void)nfds;
	if (th == NULL || th->api_try)
		return;
	ext3_wait_enter(th);
	ext4_wait_enter(th);
	note_progress(th);
	th->nwaits++;
	th->wait_tmo = tmo;
	/* C04: descriptor activity must not keep due timers from running.  A timer that was already due by
	 * the loop's own clock when the previous kernel poll was entered, and is still waiting now, has sat
	 * through a complete iteration (poll, timer pass, tasks); three in a row is starvation. */
	if (th->in_main && th->have_clock && th->nwaits_in_main >= 1) {
		int i;
		for (i = 0; i < PL->nobj; i++) {
			struct robj *o = &RO[i];
			if (PL->obj[i].kind != K_TIMER || PL->obj[i].owner != thr_idx(th))
				continue;
			if (o->registered && o->expiry <= th->clock_at_wait && o->reg_seq < th->seq_at_wait) {
				if (++o->starve[0] >= 3) {
					viol("C04.starved", "thread %d: timer obj %d (expiry %" PRId64 ") has been due since before the last %d kernel polls (loop clock then %" PRId64 ") and is still not run although the loop keeps iterating",
					     thr_idx(th), i, o->expiry, o->starve[0], th->clock_at_wait);
					viol("C07.block_with_due", "thread %d: loop keeps polling with timer obj %d due and never runs it", thr_idx(th), i);
				}
			} else {
				o->starve[0] = 0;
			}
		}
	}
	th->nwaits_in_main++;
	th->seq_at_wait = SEQ;
	th->clock_at_wait = th->last_clock;
	if (!th->in_main) {
		viol("C07.outside", "thread %d: kernel wait outside iv_main", thr_idx(th));
	} else if (th->quit_req) {
		viol("C07.no_return", "thread %d: loop polls again although iv_quit was called", thr_idx(th));
	} else if (live_upper(th) == 0) {
		/* one more non-blocking pass is legitimate (a library-internal task, e.g. the local event
		 * dispatcher, may still be queued after the last user object went away); blocking, or going
		 * round repeatedly, is not */
		if (++th->idle_polls >= 3)
		{
			viol("C07.no_return", "thread %d: loop polls for the %dth time in a row although nothing is registered", thr_idx(th), th->idle_polls);
			ext2_blame_no_return(th);
		}
	} else {
		th->idle_polls = 0;
	}
	if (have_viol())
		finish(1);
}

static void obs_wait_block(int tid)
{
	struct rthr *th = sim2plan[tid] >= 0 ? &RT[sim2plan[tid]] : NULL;
	int i, t;

	if (th == NULL || th->api_try)
		return;
	t = thr_idx(th);
	th->spin = 0;
	PROBE[PR_BLOCK]++;
	if (th->in_main && !th->quit_req && live_upper(th) == 0)
	{
		viol("C07.no_return", "thread %d: loop blocks in the kernel although nothing is registered", t);
		ext2_blame_no_return(th);
	}
	for (i = 0; i < PL->nobj; i++) {
		struct robj *o = &RO[i];
		const struct pobj *po = &PL->obj[i];
		if (po->owner != t || !o->registered)
			continue;
		switch (po->kind) {
		case K_FD: {
			int truth, b;
			if (!(o->hv[0] | o->hv[1] | o->hv[2]))
				break;
			truth = fd_truth(o->fdnum);
			for (b = 0; b < 3; b++)
				if (o->hv[b] && (truth & (1 << b)))
					viol("C02.sleep_on_ready", "thread %d blocks in the kernel while fd obj %d (fd %d) has a handler for band %d and the band's condition holds (truth=%d)", t, i, o->fdnum, b, truth);
			break;
		}
		case K_TASK:
			viol("C06.sleep_with_task", "thread %d blocks in the kernel while task obj %d is registered and has not run", t, i);
			break;
		case K_TIMER:
			if (th->have_clock && o->expiry <= th->last_clock) {
				viol("C07.block_with_due", "thread %d blocks in the kernel although timer obj %d (expiry %" PRId64 ") is due by the loop's own clock %" PRId64, t, i, o->expiry, th->last_clock);
				viol("C04.oversleep", "thread %d goes to sleep in the kernel with timer obj %d already due (expiry %" PRId64 ", loop clock %" PRId64 ", time-out %" PRId64 " ns)", t, i, o->expiry, th->last_clock, th->wait_tmo);
			}
			break;
		case K_EVENT:
			/* A completed post may legitimately still be undelivered when the owner blocks: a
			 * post that found the pending list non-empty relies on the kick of the poster that
			 * found it empty, and that poster may not have sent it yet.  Only when no thread is
			 * inside a post call for this owner is the wake-up truly lost. */
			if (o->post_done_seq > o->last_entry_seq) {
				int j, inflight = 0;
				for (j = 0; j < PL->nobj; j++)
					if (PL->obj[j].kind == K_EVENT && PL->obj[j].owner == t && RO[j].posting > 0)
						inflight++;
				inflight += ext_posts_in_flight(t);
				if (!inflight)
					viol("C08.lost", "thread %d blocks in the kernel with a completed, undelivered post on event obj %d and no other post in progress", t, i);
			}
			break;
		case K_RAW:
			if (o->post_done_seq > o->last_entry_seq)
				viol("C09.lost", "thread %d blocks in the kernel with a completed, undelivered post on raw event obj %d", t, i);
			break;
		default:
			break;
		}
	}
	if (th->wait_tmo > 0 && th->clockreads == th->clockreads_at_return && th->nwaits > 1)
		viol("C04.stale_clock", "thread %d: a finite time-out (%" PRId64 " ns) was computed without reading the clock since the previous wait returned", t, th->wait_tmo);
	ext_wait_block(th);
	if (have_viol())
		finish(1);
}

static void obs_wait_return(int tid, int res, int err, int blocked)
{
	struct rthr *th = sim2plan[tid] >= 0 ? &RT[sim2plan[tid]] : NULL;
	int i, t, thresh;

	if (th == NULL || th->api_try)
		return;
	t = thr_idx(th);
	if (err == EINTR)
		PROBE[PR_EINTR_SEEN]++;
	/* starvation accounting for the round that just ended */
	thresh = starve_threshold(th);
	for (i = 0; i < PL->nobj; i++) {
		struct robj *o = &RO[i];
		int b;
		if (PL->obj[i].kind != K_FD || PL->obj[i].owner != t || !o->registered)
			continue;
		for (b = 0; b < 3; b++) {
			if (o->snap_round == th->round && !th->last_ret_failed && o->hv[b] &&
			    (o->snap_truth & (1 << b)) && !o->hchanged[b] && !o->entered[b]) {
				if (++o->starve[b] >= thresh)
					viol("C02.starved", "fd obj %d band %d: condition held and handler stayed set over %d consecutive kernel polls without the handler being invoked", i, b, o->starve[b]);
			} else {
				o->starve[b] = 0;
			}
			o->hchanged[b] = 0;
			o->entered[b] = 0;
		}
	}
	th->round++;
	th->last_ret_failed = res < 0;
	th->clockreads_at_return = th->clockreads;
	if (!blocked && res >= 0) {
		if (++th->spin >= 24)
			viol("C07.spin", "thread %d: %d consecutive non-blocking kernel polls without dispatching any callback", t, th->spin);
	} else {
		th->spin = 0;
	}
	/* ground truth at the instant the kernel poll returned */
	{
		struct pollfd pf[MAXOBJ];
		int idx[MAXOBJ], n = 0;
		for (i = 0; i < PL->nobj; i++)
			if (PL->obj[i].kind == K_FD && PL->obj[i].owner == t && RO[i].registered) {
				pf[n].fd = RO[i].fdnum;
				pf[n].events = POLLIN | POLLOUT;
				pf[n].revents = 0;
				idx[n++] = i;
			}
		if (n > 0)
			raw_poll0(pf, n);
		for (i = 0; i < n; i++) {
			struct robj *o = &RO[idx[i]];
			o->snap_truth = res < 0 ? 0 : ((pf[i].revents & POLLNVAL) ? 0 : band_truth(pf[i].revents));
			o->snap_round = th->round;
		}
	}
	ext_wait_return(th, res, err);
	if (have_viol())
		finish(1);
}

static void obs_clock_read(int tid, int64_t val)
{
	struct rthr *th = sim2plan[tid] >= 0 ? &RT[sim2plan[tid]] : NULL;
	if (th == NULL)
		return;
	th->last_clock = val;
	th->have_clock = 1;
	th->clockreads++;
}

static void obs_time_advance(int64_t from, int64_t to)
{
	int t, i;
	(void)from;
	for (t = 0; t < PL->nthr; t++) {
		struct rthr *th = &RT[t];
		int64_t t0, s;
		if (PL->thr[t].kind != 'L' || !th->in_main || !simk_thread_blocked_in_wait(th->sim))
			continue;
		t0 = simk_thread_wait_t0(th->sim);
		s = th->have_clock ? t0 - th->clock_at_wait : 0;
		if (s < 0)
			s = 0;
		for (i = 0; i < PL->nobj; i++) {
			struct robj *o = &RO[i];
			int64_t bound;
			if (PL->obj[i].kind != K_TIMER || PL->obj[i].owner != t || !o->registered)
				continue;
			bound = (o->expiry > t0 ? o->expiry : t0) + s + 1000000 - 1;
			if (to > bound) {
				viol("C04.oversleep", "thread %d stays blocked in the kernel until at least %" PRId64 " although timer obj %d expires at %" PRId64 " (wait entered at %" PRId64 ", clock staleness %" PRId64 ", wake time %" PRId64 ")",
				     t, to, i, o->expiry, t0, s, simk_thread_wake_time(th->sim));
				viol("C05.independence", "timer obj %d does not fire when its own expiry (%" PRId64 ") says it should: the loop stays blocked past it", i, o->expiry);
				finish(1);
			}
		}
	}
	ext_time_advance(from, to);
	if (have_viol())
		finish(1);
}

static void obs_budget(const char *what)
{
	int t;
	if (VERBOSE)
		fprintf(stderr, "budget exceeded: %s\n", what);
	/* A run that ends because one thread used up most of the step budget inside a single library
	 * call -- no callback entered, no kernel wait begun, no harness operation started meanwhile --
	 * did not run out of budget, it is stuck in a loop inside the library. */
	for (t = 0; t < PL->nthr; t++) {
		struct rthr *th = &RT[t];
		long since = simk_thread_steps(th->sim) - th->steps_at_progress;
		if (th->sim > 0 && since > PL->cfg.max_steps / 2) {
			viol("ANY.livelock", "thread %d made %ld intercepted calls inside one library call without returning, waiting or dispatching anything (step budget %ld)",
			     t, since, (long)PL->cfg.max_steps);
			finish(1);
		}
	}
	ext_budget(what);
	finish(2);
}
static void obs_deadlock(const char *what)
{
	viol(strstr(what, "releases a lock") ? "ANY.lock_misuse" : strstr(what, "closes descriptor") ? "C18.close_foreign" : "SIM.deadlock", "%s", what);
	if (strstr(what, "closes descriptor"))
		viol("ANY.close_foreign", "%s", what);
	ext_deadlock(what);
	finish(1);
}

/* ---- fatal / asan ------------------------------------------------------------------------- */
static void fatal_handler(const char *msg)
{
	const char *id = "C18.fatal";
	if (strstr(msg, "iv_run_timers") || strstr(msg, "iv_timer_"))
		id = "C05.fatal";
	else if (strstr(msg, "iv_task_"))
		id = "C06.fatal";
	else if (strstr(msg, "iv_event_raw"))
		id = "C09.fatal";
	else if (strstr(msg, "iv_work") || strstr(msg, "__iv_work"))
		id = "C12.fatal";
	else if (strstr(msg, "iv_fd_") || strstr(msg, "iv_init"))
		id = "C15.fatal";
	viol(id, "iv_fatal: %s", msg);
	viol("ANY.fatal", "iv_fatal: %s", msg);
	finish(1);
}

extern void __asan_set_error_report_callback(void (*)(const char *)) __attribute__((weak));
extern void *__asan_get_report_address(void) __attribute__((weak));
extern int __asan_get_report_access_type(void) __attribute__((weak));
extern const char *__asan_get_report_description(void) __attribute__((weak));

static void asan_cb(const char *report)
{
	uintptr_t a = __asan_get_report_address ? (uintptr_t)__asan_get_report_address() : 0;
	const char *d = __asan_get_report_description ? __asan_get_report_description() : "?";
	int i, mine = 0, fkind = K_NONE;
	char first[160];

	for (i = 0; i < nfreed; i++)
		if (a >= freed[i].a && a < freed[i].a + freed[i].n) {
			mine = 1;
			fkind = freed[i].kind;
		}
	/* stable one-line summary: access kind + innermost library frame (no addresses, no pids) */
	{
		const char *p = report;
		first[0] = 0;
		while (p != NULL && *p) {
			const char *nl = strchr(p, '\n');
			char line[300];
			size_t n = nl ? (size_t)(nl - p) : strlen(p);
			char *h, *in;
			if (n >= sizeof(line))
				n = sizeof(line) - 1;
			memcpy(line, p, n);
			line[n] = 0;
			h = strstr(line, "#");
			in = h ? strstr(h, " in ") : NULL;
			if (h != NULL && h[1] >= '0' && h[1] <= '9' && in != NULL && !strstr(in, "__asan") &&
			    !strstr(in, "__interceptor") && !strstr(in, "simk_") && !strstr(in, "__sanitizer")) {
				char *bid = strstr(in, " (BuildId");
				if (bid)
					*bid = 0;
				snprintf(first, sizeof(first), "%s", in + 4);
				break;
			}
			p = nl ? nl + 1 : NULL;
		}
	}
	if (mine) {
		viol("C01.uaf", "library touched an object the caller freed after unregister (%s %s) %s", d,
		     __asan_get_report_access_type && __asan_get_report_access_type() ? "WRITE" : "READ", ext_uaf_hint());
		{
			static const char *byk[K_MAX] = { [K_FD] = "C03.uaf", [K_SIGNAL] = "C10.uaf", [K_WAIT] = "C11.uaf", [K_POOL] = "C13.uaf",
				[K_ITEM] = "C12.uaf", [K_POPEN] = "C19.uaf", [K_INOT] = "C20.uaf", [K_WATCH] = "C20.uaf", [K_PUMP] = "C17.uaf" };
			if (fkind > 0 && fkind < K_MAX && byk[fkind])
				viol(byk[fkind], "use after free of a caller-owned %s object: %s in %s", kind_name(fkind), d, first);
		}
	}
	viol("C18.memory", "%s %s in %s", d, __asan_get_report_access_type && __asan_get_report_access_type() ? "WRITE" : "READ", first);
	if (!mine)
		viol("ANY.memory", "%s %s in %s", d, __asan_get_report_access_type && __asan_get_report_access_type() ? "WRITE" : "READ", first);
	(void)a;
	if (VERBOSE)
		fprintf(stderr, "%s\n", report);
	finish(1);
}

void engine_global_init(void)
{
	simk_global_init();
}

/* ---- threads --------------------------------------------------------------------------------- */
static void td_handler(void *cookie)
{
	struct rthr *th = cookie;
	int i, t = thr_idx(th);

	PROBE[PR_TEARDOWN]++;
	simk_log(107, t, 0);
	th->spin = 0;
	th->depth++;
	th->cur_kind = K_NONE;
	teardown_phase++;
	ext_teardown(th);
	if (PL->seed & 1) {
		for (i = 0; i < PL->nobj; i++)
			if (PL->obj[i].owner == t && RO[i].registered && PL->obj[i].kind != K_CHAN)
				op_unreg(th, i, 0);
	} else {
		for (i = PL->nobj - 1; i >= 0; i--)
			if (PL->obj[i].owner == t && RO[i].registered && PL->obj[i].kind != K_CHAN)
				op_unreg(th, i, 0);
	}
	teardown_phase--;
	hb_acquire(&th->td_raw);
	iv_event_raw_unregister(&th->td_raw);
	th->td_registered = 0;
	th->depth--;
	if (have_viol())
		finish(1);
}

static void method_env(void)
{
	static const char *names[3] = { "epoll-timerfd", "epoll", "ppoll" };
	char buf[128] = "";
	int i;

	if (PL->excl_style & 1)
		strcat(buf, "kqueue  bogus ");
	if (PL->excl_style & 2) {
		for (i = 2; i >= 0; i--)
			if (PL->method_excl & (1 << i)) {
				strcat(buf, names[i]);
				strcat(buf, "\t ");
			}
	} else {
		for (i = 0; i < 3; i++)
			if (PL->method_excl & (1 << i)) {
				strcat(buf, names[i]);
				strcat(buf, " ");
			}
	}
	if (PL->excl_style & 4)
		strcat(buf, " dev_poll");
	if (buf[0])
		setenv("IV_EXCLUDE_POLL_METHOD", buf, 1);
	else
		unsetenv("IV_EXCLUDE_POLL_METHOD");
}

static void check_clean_process(const char *when)
{
	char buf[512];
	if (simk_ledger_blocks() != 0)
		viol("C18.leak_mem", "%s: %d library allocation(s) (%ld bytes) not released: %s", when,
		     simk_ledger_blocks(), simk_ledger_bytes(), simk_ledger_describe(buf, sizeof(buf)));
	if (simk_libfds() != 0)
		viol("C18.leak_fd", "%s: %d descriptor(s) created by the library still open: %s", when,
		     simk_libfds(), simk_libfds_describe(buf, sizeof(buf)));
}

static int inited_threads;

static int no_posts_in_progress(void *arg)
{
	struct rthr *th = arg;
	int i, t = (int)(th - RT);
	for (i = 0; i < PL->nobj; i++)
		if (PL->obj[i].owner == t && RO[i].posting > 0)
			return 0;
	return 1;
}

static void *loop_thread(void *arg)
{
	struct rthr *th = arg;
	int t = thr_idx(th), c, reenter_left = 0;
	const struct pthr *pt = &PL->thr[t];

	if (t != 0) {
		simk_flag_wait(&first_init_done);
		hb_acquire((void *)&first_init_done);
	}
	for (c = 0; c < pt->cycles && !have_viol(); c++) {
		th->cycle = c;
		inited_threads++;
		iv_init();
		th->inited = 1;
		simk_log(104, t, c);
		if (t == 0 && c == 0) {
			int i;
			/* task structures that the first thread sets up for the others (IV_TASK_INIT here,
			 * iv_task_register in the owner later): legal, and the task still belongs to the loop it
			 * is registered with */
			for (i = 0; i < PL->nobj; i++)
				if (PL->obj[i].kind == K_TASK && PL->obj[i].owner > 0 && PL->obj[i].p[3] == 1 && RO[i].mem == NULL) {
					RO[i].memsz = sizeof(struct iv_task);
					RO[i].mem = malloc(RO[i].memsz);
					memset(RO[i].mem, 0xA5, RO[i].memsz);
					IV_TASK_INIT(RO[i].mem);
					PROBE[PR_TASK_FOREIGN_INIT]++;
				}
			ext_after_first_init();
			hb_release((void *)&first_init_done);	/* what the first thread prepared is handed over with the flag */
			first_init_done = 1;
		}
		if (pt->td) {
			IV_EVENT_RAW_INIT(&th->td_raw);
			th->td_raw.cookie = th;
			th->td_raw.handler = td_handler;
			if (iv_event_raw_register(&th->td_raw) == 0)
				th->td_registered = 1;
			hb_release(&th->td_raw);
			th->td_requested = 0;
		}
		run_actions(th, CTX_SETUP, t, 0);
		if (have_viol())
			finish(1);
		reenter_left = pt->reenter;
		for (;;) {
			int i, again;

			th->quit_req = 0;
			th->in_main = 1;
			th->main_entries++;
			th->nwaits_in_main = 0;
			th->spin = 0;
			simk_log(102, t, live_objects(th));
			iv_main();
			th->in_main = 0;
			simk_log(103, t, live_objects(th));
			SEQ++;
			if (!th->quit_req && live_objects(th) > 0)
				viol("C07.early_return", "thread %d: iv_main returned without iv_quit while %d object(s) are still registered", t, live_objects(th));
			if (!th->quit_req && !th->td_requested)
				PROBE[PR_NATURAL_RETURN]++;
			if (have_viol())
				finish(1);
			if (th->quit_req && reenter_left > 0 && !th->td_requested && !teardown_started) {
				/* the application called iv_quit and simply runs the loop again later, with
				 * everything that is registered left as it is */
				reenter_left--;
				PROBE[PR_REENTER]++;
				continue;
			}
			/* clean up what is still registered (after iv_quit): legal API use outside iv_main */
			th->post_main = 1;
			/* pinned objects: no new cross-thread post may start, and posts in progress
			 * must have returned, before the owner may unregister them */
			for (i = 0; i < PL->nobj; i++)
				if (PL->obj[i].owner == t && RO[i].registered)
					RO[i].closing = 1;
			simk_wait_pred(no_posts_in_progress, th);
			ext_post_main(th);
			for (i = 0; i < PL->nobj; i++)
				if (PL->obj[i].owner == t && RO[i].registered && PL->obj[i].kind != K_CHAN)
					op_unreg(th, i, 0);
			if (th->td_registered) {
				hb_acquire(&th->td_raw);
				iv_event_raw_unregister(&th->td_raw);
				th->td_registered = 0;
			}
			th->post_main = 0;
			/* library-internal users of the loop (a released pool that is still draining, threads
			 * that have not been joined, a closed popen whose child is alive) need the loop to
			 * run on: re-enter it, as an application that called iv_quit too early would */
			again = th->quit_req && live_upper(th) > 0;
			if (!again)
				break;
			PROBE[PR_ONESHOT_REREG]++;
		}
		{
			/* memory kept for reuse is released now */
			int i;
			for (i = 0; i < PL->nobj; i++)
				if (PL->obj[i].owner == t && !RO[i].registered && PL->obj[i].kind != K_CHAN && ext_mem_idle(i))
					obj_free_mem(i);
		}
		if (c == pt->cycles - 1 && !pt->deinit) {
			PROBE[PR_THREAD_EXIT_NODEINIT]++;
			break;		/* the thread-exit destructor has to clean up */
		}
		iv_deinit();
		th->inited = 0;
		inited_threads--;
		simk_log(105, t, c);
		PROBE[PR_CYCLES]++;
		if (inited_threads == 0 && simk_stats.lib_threads == 0) {
			char w[64];
			snprintf(w, sizeof(w), "after iv_deinit of thread %d cycle %d", t, c);
			check_clean_process(w);
		}
		if (have_viol())
			finish(1);
	}
	th->finished = 1;
	if (pt->exitmode == 1)
		pthread_exit(NULL);
	return NULL;
}

static void *driver_thread(void *arg)
{
	struct rthr *th = arg;
	int t = thr_idx(th);

	simk_flag_wait(&first_init_done);
	run_actions(th, CTX_DRV, t, 0);
	th->finished = 1;
	if (have_viol())
		finish(1);
	return NULL;
}

int engine_inited_threads_add(int d)
{
	inited_threads += d;
	return inited_threads;
}

static void on_thread_exit(int tid)
{
	int t = sim2plan[tid];
	ext2_on_thread_exit(tid);
	if (t >= 0 && RT[t].inited) {
		/* exited without iv_deinit: the key destructor has run by now */
		RT[t].inited = 0;
		inited_threads--;
	}
}

static int parked_timers(void)
{
	int i, n = 0;
	for (i = 0; i < PL->nobj; i++)
		if (PL->obj[i].kind == K_TIMER && RO[i].registered && RO[i].expiry == PARKED_NS)
			n++;
	return n;
}

static void check_obligations(int final)
{
	int i;
	(void)final;
	for (i = 0; i < PL->nobj; i++) {
		struct robj *o = &RO[i];
		const struct pobj *po = &PL->obj[i];
		struct rthr *th;
		if (!o->registered || po->owner < 0)
			continue;
		th = &RT[po->owner];
		switch (po->kind) {
		case K_EVENT:
			if (o->post_begin_seq > o->last_entry_seq && th->in_main)
				viol("C08.lost", "quiescence: event obj %d has a post (seq %" PRIu64 ") that was never followed by a handler invocation (last entry seq %" PRIu64 "); owner thread %d is blocked", i, o->post_begin_seq, o->last_entry_seq, po->owner);
			break;
		case K_RAW:
			if (o->post_begin_seq > o->last_entry_seq && th->in_main)
				viol("C09.lost", "quiescence: raw event obj %d has a post that was never followed by a handler invocation; owner thread %d is blocked", i, po->owner);
			break;
		case K_TIMER:
			if (th->in_main && o->expiry != PARKED_NS)
				viol("C04.oversleep", "quiescence: timer obj %d (expiry %" PRId64 ", now %" PRId64 ") is registered but its thread sleeps without any deadline", i, o->expiry, simk_now());
			break;
		case K_TASK:
			if (th->in_main)
				viol("C06.lost", "quiescence: task obj %d is registered but never ran", i);
			break;
		default:
			break;
		}
	}
	ext_obligations();
}

void engine_run(const struct plan *p, int result_fd, int verbose)
{
	struct simk_cfg cfg;
	int i, rounds;

	(void)result_fd;
	PL = p;
	VERBOSE = verbose;
	{
		/* watchdog: 25 s of CPU time of this run (a loop that spins, whatever the machine load) and, as
		 * a back-stop for a run that sleeps for ever, 150 s of real time */
		struct itimerval itv;
		unsigned wd = getenv("IVSIM_WATCHDOG") ? (unsigned)atoi(getenv("IVSIM_WATCHDOG")) : 25;
		memset(&itv, 0, sizeof(itv));
		itv.it_value.tv_sec = wd;
		setitimer(ITIMER_PROF, &itv, NULL);
		alarm(wd * 6);
	}

	cfg = p->cfg;
	cfg.faults = (struct simk_fault *)p->faults;
	cfg.nfaults = p->nfaults;
	cfg.replay = p->sched;
	cfg.nreplay = p->nsched;
	simk_shared_reset();
	simk_run_begin(&cfg);

	simk_obs.wait_enter = obs_wait_enter;
	simk_obs.wait_block = obs_wait_block;
	simk_obs.wait_return = obs_wait_return;
	simk_obs.clock_read = obs_clock_read;
	simk_obs.time_advance = obs_time_advance;
	simk_obs.budget = obs_budget;
	simk_obs.deadlock = obs_deadlock;
	simk_obs.thread_exit = on_thread_exit;
	ext_install_obs();

	iv_set_fatal_msg_handler(fatal_handler);
	if (__asan_set_error_report_callback)
		__asan_set_error_report_callback(asan_cb);
	method_env();

	for (i = 0; i < SIMK_MAXT; i++)
		sim2plan[i] = -1;
	for (i = 0; i < p->nobj; i++)
		if (p->obj[i].kind == K_CHAN)
			chan_create(i);
	ext_run_begin();

	for (i = 0; i < p->nthr; i++) {
		RT[i].sim = simk_thread_create(p->thr[i].kind == 'L' ? loop_thread : driver_thread, &RT[i]);
		sim2plan[RT[i].sim] = i;
		if (p->thr[i].sigmask_all)
			simk_set_sigmask(RT[i].sim, ~0ULL);
	}
	if (p->nthr > 0 && p->thr[0].kind != 'L')
		first_init_done = 1;

	for (rounds = 0; rounds < 4000; rounds++) {
		int budget, all = 1, asked = 0;

		budget = simk_wait_quiescence();
		simk_log(106, rounds, budget);
		for (i = 0; i < p->nthr; i++)
			if (!simk_thread_exited(RT[i].sim))
				all = 0;
		if (all)
			break;
		if (budget && !(parked_timers() > 0 && simk_next_deadline() - simk_now() >= 80000LL * 1000000000LL)) {
			ext_budget("vtime");
			finish(2);
		}
		/* (with a parked timer the loops sleep towards it, a day at a time at most: that is quiescence) */
		/* the environment's last duty: consumers drain what is still readable; if that moved
		 * anything, the system is not quiescent after all */
		if (ext4_quiesce_progress())
			continue;
		check_obligations(0);
		if (have_viol())
			finish(1);
		for (i = 0; i < p->nthr; i++) {
			struct rthr *th = &RT[i];
			if (p->thr[i].kind != 'L' || !th->in_main)
				continue;
			if (th->td_registered && !th->td_requested) {
				teardown_started = 1;
				th->td_requested = 1;
				asked++;
				hb_acquire(&th->td_raw);
				iv_event_raw_post(&th->td_raw);
				hb_release(&th->td_raw);
			} else if (th->td_requested) {
				viol("C07.no_return", "thread %d: iv_main does not return after everything was unregistered by tear-down (%d live in the model)", i, live_objects(th));
				ext2_blame_no_return(th);
			} else if (th->quit_req || live_upper(th) == 0) {
				viol("C07.no_return", "thread %d: blocked inside iv_main although %s", i, th->quit_req ? "iv_quit was called" : "nothing is registered");
				if (!th->quit_req)
					ext2_blame_no_return(th);
			}
		}
		if (have_viol())
			finish(1);
		if (!asked) {
			/* threads without a tear-down handle stay in their loop: the run ends here */
			ext_end_of_run(0);
			finish(have_viol() ? 1 : 0);
		}
	}
	for (i = 0; i < p->nthr; i++)
		simk_thread_join(RT[i].sim);
	ext_end_of_run(1);
	/* every thread is gone: nothing of the library's may be left */
	{
		int alive = 0;
		for (i = 1; i < simk_nthreads(); i++)
			if (!simk_thread_exited(i))
				alive++;
		if (alive)
			viol("C18.leak_thread", "%d simulated thread(s) still alive after all plan threads exited", alive);
		for (i = 1; i < simk_nthreads(); i++)
			if (simk_lib_thread(i) && !simk_thread_joined(i) && !simk_thread_detached(i))
				viol("C13.joined", "library-created thread (sim %d) was neither joined nor detached", i);
		if (!alive)
			check_clean_process("at end of run (all threads exited)");
	}
	finish(have_viol() ? 1 : 0);
}
