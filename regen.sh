#!/bin/sh
# regen.sh -- run every quick check on the unchanged tree, rewrite evidence/, validate against the schemas
cd "$(dirname "$0")" || exit 2
git -C /repo status --short | grep -v '^??' && { echo "/repo has uncommitted changes"; exit 2; }
rc=0
for p in $(python3 -c "import check; print(' '.join(sorted(check.PROPS)))"); do
	./check $p quick 2>&1 | grep -E "^VIOLATION|^KNOWN|MACHINERY|^SUMMARY" | cut -c1-200
done
python3-vt - <<'PY'
import json, jsonschema, glob
ev = json.load(open('/root/.vp/EVIDENCE.schema.json'))
for f in sorted(glob.glob('/verif/evidence/C*.json')):
    j = json.load(open(f))
    jsonschema.validate(j, ev)
    if j.get('violations'):
        print('NOTE', f, 'records violations:', j['violations'])
jsonschema.validate(json.load(open('/verif/MANIFEST.json')), json.load(open('/root/.vp/MANIFEST.schema.json')))
print('schemas ok')
PY
