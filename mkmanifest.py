#!/usr/bin/env python3
"""Generate MANIFEST.json from the table of implemented checks (check.py PROPS)."""
import json, os, sys
sys.path.insert(0, os.path.dirname(os.path.abspath(__file__)))
import check

TEXT = {
 "C01": ("Seeded search over programs of all eight object kinds (zoo: fd/timer/task/event/raw on all four poll methods; signal, child-wait and inotify scenarios) that unregister, free and re-register objects from any callback; a stale callback is caught by the generation-stamped cookie model, any touch of a caller-freed object by ASan (every object is individually allocated and freed the moment unregister returns).", "4 C01"),
 "C02": ("At every kernel wait that is about to block, poll(2) ground truth of every registered descriptor is compared with the model's handler table (no sleeping on a wanted, ready band); a starvation counter covers loops that never block; handlers are installed, cleared and re-installed from set-up and callbacks, on all four poll methods, with truncated epoll batches.", "4 C02"),
 "C03": ("Every fd callback is checked against the model (registered now, current handler variant, current cookie) and against the poll(2) snapshot taken at the instant the preceding kernel poll returned; at most once per band per iteration; failed register_try on descriptor numbers that are later reused; single-loop plans and multi-loop plans with cross-thread posts.", "4 C03"),
 "C04": ("Virtual clock: handler entry never before expiry by the loop's own clock, exactly once, and whenever virtual time advances every blocked loop's wake time (wait deadline or armed simulated timerfd) is compared with its earliest model timer (+1 ms rounding, + documented clock staleness); a timer that was due before the previous kernel poll and is still waiting after three complete iterations is starvation by descriptor activity (C04.starved); generator pattern that engages and disengages the repeated-deadline kernel-timer path; timers parked centuries away; timer populations from the C05 scenario.", "4 C04"),
 "C05": ("Timer populations walk across the 128 and 16384 radix boundaries in both directions under the virtual clock (quick: mostly a few hundred, some >16384; thorough: up to 20000); dispatch order inside a round and each timer's fate (fires once, not early, loop never blocks past it, or never after unregister) are compared with a model; victims root/newest/oldest/min/max/random/one-of-the-four-newest, equal keys, already-due timers, timers parked centuries away; small populations in churn-then-drain cycles (a few single removals and arrivals, then everything expires untouched, hundreds of cycles per plan) so that damage to the store surfaces as a late or out-of-order expiry; iv_fatal heap-index reports and ASan on radix nodes.", "4 C05"),
 "C06": ("Task model: exactly once, unregistered on entry, never pending when the loop blocks, never twice between two kernel polls (deferral of a re-registration made by an already-run task), tasks re-registering themselves and each other next to ready descriptors and due timers (whatever is then not serviced is reported by this check), a busy task burst across the expiry the kernel timer is armed for, iv_quit from a task handler followed by iv_main again with everything still registered.", "4 C06"),
 "C07": ("iv_main return / no-return is compared with the model's live-object count (lower and upper bound where library-internal users exist) and quit flag at every kernel wait, every return and at quiescence, including failed register_try / event registrations (EMFILE, EBADF, EPERM, ENOSPC faults) and re-entry after iv_quit; spin, nesting and blocks-with-something-due detectors; every scenario (zoo, pool, popen, wait, signal, inotify, pump) is run, with planned failures of fork, pipe, pthread_create, inotify_init and inotify_add_watch attached to the registering operation (the failed call must leave the loop exactly as it was).", "4 C07"),
 "C08": ("1-3 owner loops with several events each and up to 3 poster threads under a seeded scheduler that preempts at every lock, kick and wait; per post: a handler entry in the owner after the post began, entries <= posts, owner never blocks with a completed undelivered post while no post is in flight, and no undelivered post at quiescence; both wake-up transports.", "4 C08"),
 "C09": ("Raw-event posts from the owner, other threads and simulated signal handlers, bursts up to and beyond a pipe buffer (boundary sizes k*1024), eventfd2 / old eventfd / pipe fallback selected by ENOSYS/EINVAL faults, shrunk pipes; a completed post must be delivered before the owner blocks and by quiescence.", "4 C09"),
 "C10": ("Simulated signal layer (dispositions, masks, pending sets, nested delivery governed by sa_mask); the must-wake set of every delivery is computed at the exact instant the library's handler walks a tree (thread tree at entry, process tree when it takes the signal spinlock), with registrations in progress resolved by whether their critical section has run; a handler that returns without walking the process-wide interests owes every interest that stayed registered across it (signals received by threads without ivykis state); individual obligations for shared interests, group obligation with hand-off semantics for exclusive ones, upper bounds for spurious calls, disposition table checks.", "4 C10"),
 "C11": ("Simulated process table (fork/wait4/kill with states, stop/continue, pid reuse preferred); ground truth is the reap log: each interest must receive exactly the statuses reaped for its child while registered, in order, death once and last; kills that reach a reaped or recycled pid, zombies left behind while listeners exist, stranger children.", "4 C11"),
 "C12": ("Work pools under the seeded scheduler with virtual time across the 10 s idle time-out: work function once in a pool thread between the pool's start/stop hooks and never the owner, concurrency <= max_threads, completion once in the owner after the work function returned, NULL-pool items from a task, nothing outstanding at quiescence.", "4 C12"),
 "C13": ("Pool release at any moment (struct freed as put returns -> ASan), drain, start/stop hook pairing per worker thread, every library-created thread exited and joined or detached, owner's iv_main returns without help once everything is gone (a drained released pool or an exited thread that still holds the loop is C13.release); iv_thread_create failing (pthread_create EAGAIN) leaves nothing behind; iv_thread children that return / pthread_exit with and without their own loop keep the creator's iv_main from returning until joined.", "4 C13"),
 "C14": ("The multi-threaded scenario programs (events, raw events, pools, iv_thread, signals, child reaping, concurrent init/deinit) run in a ThreadSanitizer build under the seeded serialising scheduler; the scheduler, harness and simulator are uninstrumented and park threads with raw futexes, so TSan sees only the library's own synchronisation; application-level hand-offs and the kernel's sigaction->handler ordering are declared explicitly; what the kernel stores into the library's buffers (epoll events, read data, signal masks) is declared as a write of the calling thread; only the named one-way feature flags are suppressed; inotify instances in loop threads of their own are included.", "4 C14"),
 "C15": ("Fault enumeration: for each seeded base plan, every k-th wait of every loop thread fails with EINTR (at entry and at wake-up), and every optional facility (epoll_pwait2 ENOSYS/EPERM, ppoll, epoll_create1, timerfd_create, eventfd2 EINVAL/ENOSYS, eventfd, pipe2, splice) is absent from call 1 and from every k-th call; every oracle of the other properties must hold in every run of this check, fault variants and fault-free base runs alike (poll method and exclusion style are drawn per plan); the k-th read of the library's own wake-up descriptors fails with EINTR / EAGAIN for every k; the four poll methods and exclusion-string styles are drawn per plan.", "4 C15"),
 "C17": ("Producer and consumer drivers move a seeded pseudo-random stream through 1-3 pumps (some plans: 21-26 back-pressured pumps at once, more than the per-thread buffer cache holds) between pipes and sockets (splice and read/write mode, short transfers, shrunk pipes, injected errors, a buffer pipe that cannot be had (EMFILE at pipe2), back-pressure, EOF at any offset): bytes received are at all times a prefix of bytes produced, EOF only after the last byte, return codes and requested bands checked against the public state after every call, no-progress invocation storms, completion at quiescence after the consumer drained; the application also calls the pump on its own (after set-up, from a recurring timer); is_done() agrees with the return value; RELAY_EOF on a socket output has shut it down when the pump reports done.", "4 C17"),
 "C18": ("Every simulated run of every scenario executes under ASan+UBSan with each object freed at the earliest legal moment; the library allocation ledger and descriptor ledger must be empty whenever no thread holds library state, across init/deinit cycles and thread exits with and without iv_deinit; O_NONBLOCK/FD_CLOEXEC after registration.", "4 C18"),
 "C19": ("popen requests over simulated children (exit at once / on first SIGTERM / ignore SIGTERM / after the n-th signal with delay / between two signals / stopped meanwhile) with the close before, during and after the child's end: the signals the child receives must be SIGTERM x5 then SIGKILL at 5 s steps of virtual time from the close until it ends, none after the reap, no zombie, loop released (C19.release); submissions whose pipe() or fork() fails leave no descriptor, memory or loop object behind.", "4 C19"),
 "C20": ("Real inotify on a scratch tmpfs tree: the exact bytes every read() returned to the library are parsed independently and walked against the model's live-watch set; the handler sequence must match record for record (watch, wd, mask, cookie, name), with watches / other watches / the instance unregistered or registered from inside handlers, one-shot and kernel-removed watches, bursts giving many records per read, floods that overflow the kernel queue (an overflow record that belongs to no watch), instances in loop threads of their own, failing inotify_init / inotify_add_watch.", "4 C20"),
}
NOTE = "Trusted base: the running Linux kernel's epoll/poll/eventfd/pipe/socket semantics (real), glibc, the sanitizer run-times, and the simulator's own models of time, timerfd, signals and child processes (sim/simk.c). Context switches only at intercepted libc calls. Sampling, not proof."
NA = {
 "C16": "pure sequential data structure (AVL tree): no schedule, clock, fault, I/O or second party for a simulator to control; deterministic simulation does not apply (DESIGN.md section 4, C16)",
}

def main():
    checks = []
    for p in sorted(check.PROPS):
        cfg = check.PROPS[p]
        text, ref = TEXT.get(p, ("seeded simulation", "4"))
        checks.append(dict(
            property_id=p,
            quick_cmd="./check %s quick" % p,
            thorough_cmd="./check %s thorough" % p,
            evidence_file="evidence/%s.json" % p,
            replay_cmd_template="./check replay {path}",
            engine="ivsim",
            level_claimed=dict(category=cfg["level"], text=text, design_ref="DESIGN.md section " + ref),
            level_note=NOTE,
            technique="deterministic simulation with fault injection: seeded search over schedules, virtual time and fault plans, real library code behind an objcopy-redirected libc seam, reference-model and ground-truth oracles" + (", fault enumeration over every k-th wait / optional syscall" if cfg["level"] == "fault_enumeration" else ""),
        ))
    na = []
    import json as j
    ids = [j.loads(l)["id"] for l in open(os.path.join(check.VERIF, "properties.jsonl"))]
    import subprocess
    fixes = subprocess.run(["git", "-C", "/repo", "log", "--format=%h %s", "--grep=^fix:"], stdout=subprocess.PIPE, text=True).stdout.strip().splitlines()
    for i in ids:
        if i not in check.PROPS:
            na.append(dict(property_id=i, reason=NA.get(i, "check not built yet: the scenario for this property is still being implemented (DESIGN.md section 10, implementation order); not claimed until it runs")))
    m = dict(
        version=1,
        setup_cmd="python3 build.py asan tsan",
        hooks=dict(guard="IVYKIS_VERIF", enable="none needed: the library sources are compiled unmodified and their libc references are redirected with objcopy --redefine-syms (sim/redirect.syms)",
                   baseline_off_cmd="make -s -C /repo check", source_commits=[], add_only=True),
        engines=[dict(name="ivsim", path="build.py + sim/ + harness/ + check.py", serves_properties=sorted(check.PROPS),
                      kind_free_text="deterministic simulator (real pthreads released one at a time by a seeded scheduler, virtual clock, simulated timerfd/signals/children, fault plans) around the unmodified library; fork-per-run workers; Python orchestrator with ddmin minimiser, replay gate and known-findings matching")],
        checks=checks,
        notes="See DESIGN.md. No hooks were added to /repo (empty source_commits). Genuine defects found by the checks were repaired with unguarded fix: commits in /repo (recorded in known_findings.json): " + "; ".join(fixes),
        not_applicable=na,
    )
    with open(os.path.join(check.VERIF, "MANIFEST.json"), "w") as f:
        json.dump(m, f, indent=1)
    print("MANIFEST.json: %d checks, %d not claimed" % (len(checks), len(na)))

main()
