#!/usr/bin/env python3
"""Generate MANIFEST.json from the table of implemented checks (check.py PROPS)."""
import json, os, sys
sys.path.insert(0, os.path.dirname(os.path.abspath(__file__)))
import check

TEXT = {
 "C01": ("Seeded search over zoo programs (all object kinds, all four poll methods, unregister/free/re-register from any callback) executed against the real library under the simulator; a stale callback is caught by the generation-stamped cookie model, any touch of a caller-freed object by ASan.", "4 C01"),
 "C02": ("At every kernel wait that is about to block, poll(2) ground truth of every registered descriptor is compared with the model's handler table (no sleeping on a wanted, ready band); a starvation counter covers loops that never block.", "4 C02"),
 "C03": ("Every fd callback is checked against the model (registered now, current handler variant, current cookie) and against the poll(2) snapshot taken at the instant the preceding kernel poll returned; at most once per band per iteration.", "4 C03"),
 "C04": ("Virtual clock: handler entry never before expiry by the loop's own clock, exactly once, and whenever virtual time advances every blocked loop's wake time is compared with its earliest model timer (+1 ms rounding, + documented clock staleness).", "4 C04"),
 "C05": ("Timer populations walk across the 128 and 16384 radix boundaries in both directions under the virtual clock; dispatch order inside a round and per-timer fate are compared with a multiset model; iv_fatal heap-index reports and ASan on radix nodes.", "4 C05"),
 "C06": ("Task model: exactly once, unregistered on entry, never pending when the loop blocks, never twice between two kernel polls (deferral of re-registration by an already-run task).", "4 C06"),
 "C07": ("iv_main return / no-return is compared with the model's live-object count and quit flag at every kernel wait, at every return and at quiescence, including failed register_try / event registrations (EMFILE, EBADF, EPERM faults); spin and nesting detectors.", "4 C07"),
 "C18": ("Every simulated run executes under ASan+UBSan with each object freed at the earliest legal moment; library allocation ledger and descriptor ledger must be empty whenever no thread holds library state, across init/deinit cycles and thread exits with and without iv_deinit.", "4 C18"),
}
NOTE = "Trusted base: the running Linux kernel's epoll/poll/eventfd/pipe/socket semantics (real), glibc, the sanitizer run-times, and the simulator's own models of time, timerfd, signals and child processes (sim/simk.c). Context switches only at intercepted libc calls. Sampling, not proof."
NA = {
 "C16": "pure sequential data structure (AVL tree): no schedule, clock, fault, I/O or second party for a simulator to control; deterministic simulation does not apply (DESIGN.md section 4, C16)",
}

def main():
    checks = []
    for p in sorted(check.PROPS):
        cfg = check.PROPS[p]
        text, ref = TEXT.get(p, ("seeded simulation", "4"))
        checks.append(dict(
            property_id=p,
            quick_cmd="./check %s quick" % p,
            thorough_cmd="./check %s thorough" % p,
            evidence_file="evidence/%s.json" % p,
            replay_cmd_template="./check replay {path}",
            engine="ivsim",
            level_claimed=dict(category=cfg["level"], text=text, design_ref="DESIGN.md section " + ref),
            level_note=NOTE,
            technique="deterministic simulation with fault injection: seeded search over schedules, virtual time and fault plans, real library code behind an objcopy-redirected libc seam, reference-model and ground-truth oracles" + (", fault enumeration over every k-th wait / optional syscall" if cfg["level"] == "fault_enumeration" else ""),
        ))
    na = []
    import json as j
    ids = [j.loads(l)["id"] for l in open(os.path.join(check.VERIF, "properties.jsonl"))]
    for i in ids:
        if i not in check.PROPS:
            na.append(dict(property_id=i, reason=NA.get(i, "check not built yet: the scenario for this property is still being implemented (DESIGN.md section 10, implementation order); not claimed until it runs")))
    m = dict(
        version=1,
        setup_cmd="python3 build.py asan tsan",
        hooks=dict(guard="IVYKIS_VERIF", enable="none needed: the library sources are compiled unmodified and their libc references are redirected with objcopy --redefine-syms (sim/redirect.syms)",
                   baseline_off_cmd="make -s -C /repo check", source_commits=[], add_only=True),
        engines=[dict(name="ivsim", path="build.py + sim/ + harness/ + check.py", serves_properties=sorted(check.PROPS),
                      kind_free_text="deterministic simulator (real pthreads released one at a time by a seeded scheduler, virtual clock, simulated timerfd/signals/children, fault plans) around the unmodified library; fork-per-run workers; Python orchestrator with ddmin minimiser, replay gate and known-findings matching")],
        checks=checks,
        notes="See DESIGN.md. fix: commits in /repo are listed in known_findings.json.",
        not_applicable=na,
    )
    with open(os.path.join(check.VERIF, "MANIFEST.json"), "w") as f:
        json.dump(m, f, indent=1)
    print("MANIFEST.json: %d checks, %d not claimed" % (len(checks), len(na)))

main()
