#!/usr/bin/env python3
"""check.py -- orchestrator of the ivykis deterministic-simulation checks.

  ./check <Cxx> quick|thorough      run the check of one property
  ./check replay <file>             re-execute a replay file and compare with its expectation
  ./check selftest-determinism [n]  two executions per seed, hashes must agree

Exit status: 0 property held on everything explored (known findings are
reported as KNOWN-FINDING lines), 1 violation (with a VIOLATION line),
2 machinery fault (never a verdict).
"""
import json
import os
import re
import shutil
import subprocess
import sys
import tempfile
import time

VERIF = os.path.dirname(os.path.abspath(__file__))
sys.path.insert(0, VERIF)
import build as ivbuild  # noqa: E402

NWORKERS = int(os.environ.get("VERIF_WORKERS", "16"))

# property -> configuration of its check
#   scenario / flavours / runs per tier / which probes make a run "non-trivial"
def Z(profile, flav="asan", w=1, scen="zoo", mode="batch"):
    return dict(scen=scen, profile=profile, flav=flav, w=w, mode=mode)


PROPS = {
    "C01": dict(parts=[Z("C01", w=4), Z("C10", scen="sig"), Z("C11", scen="wait"), Z("C20", scen="inot")], quick=60000, thorough=1200000, nontrivial=["unreg_in_cb"], level="exploration"),
    "C02": dict(parts=[Z("C02")], quick=60000, thorough=1200000, nontrivial=["fd_cb", "block"], level="exploration"),
    "C03": dict(parts=[Z("C03", w=3), Z("C01", w=1)], quick=60000, thorough=1200000, nontrivial=["fd_cb"], level="exploration"),
    "C04": dict(parts=[Z("C04", w=4), Z("C05", scen="timers")], quick=60000, thorough=1200000, nontrivial=["timer_fired", "block"], level="exploration"),
    "C05": dict(parts=[Z("C05", scen="timers", w=3), Z("C04")], quick=6250, thorough=120000, nontrivial=["timer_many"], level="exploration"),
    "C06": dict(parts=[Z("C06", w=4), Z("C18", w=1)], quick=60000, thorough=1200000, nontrivial=["task_ran"], level="exploration"),
    "C07": dict(parts=[Z("C07", w=6), Z("C13", scen="pool", w=2), Z("C19", scen="popen", w=2), Z("C11", scen="wait"), Z("C10", scen="sig"),
                       Z("C20", scen="inot"), Z("C17", scen="pump"), Z("C05", scen="timers")], quick=60000, thorough=1200000, nontrivial=["block"], level="exploration"),
    "C08": dict(parts=[Z("C08")], quick=50000, thorough=1000000, nontrivial=["post_cross", "event_cb"], level="exploration"),
    "C09": dict(parts=[Z("C09")], quick=50000, thorough=1000000, nontrivial=["raw_cb"], level="exploration"),
    "C10": dict(parts=[Z("C10", scen="sig")], quick=50000, thorough=1000000, nontrivial=["sig_cb"], level="exploration"),
    "C11": dict(parts=[Z("C11", scen="wait")], quick=50000, thorough=1000000, nontrivial=["wait_cb"], level="exploration"),
    "C12": dict(parts=[Z("C12", scen="pool")], quick=30000, thorough=600000, nontrivial=["work_done"], level="exploration"),
    "C13": dict(parts=[Z("C13", scen="pool")], quick=30000, thorough=600000, nontrivial=["work_done"], level="exploration"),
    "C19": dict(parts=[Z("C19", scen="popen")], quick=50000, thorough=1000000, nontrivial=["popen_kill"], level="exploration"),
    "C14": dict(parts=[Z("C08", "tsan", w=3), Z("C09", "tsan", w=2), Z("C18", "tsan", w=2), Z("C12", "tsan", w=3, scen="pool"),
                       Z("C13", "tsan", w=2, scen="pool"), Z("C10", "tsan", w=2, scen="sig"), Z("C11", "tsan", w=3, scen="wait"),
                       Z("C20", "tsan", w=1, scen="inot")],
                quick=23750, thorough=400000, quick_s=75, nontrivial=[],
                nontrivial_any=["post_cross", "sim_libthreads", "sim_sigdel", "sim_reaps"], level="exploration"),
    "C15": dict(parts=[Z("C15", mode="enum", w=4), Z("C17", scen="pump", mode="enum", w=1), Z("C09", mode="enum", w=2)], extra_parts=[Z("C01", w=1), Z("C02", w=1)], extra_runs=8000, extra_s=20, quick=320, thorough=12000, nontrivial=["block"], level="fault_enumeration"),
    "C17": dict(parts=[Z("C17", scen="pump")], quick=15000, thorough=300000, nontrivial=["pump_bytes"], level="exploration"),
    "C18": dict(parts=[Z("C18", w=4), Z("C13", scen="pool", w=3), Z("C10", scen="sig"), Z("C11", scen="wait"), Z("C19", scen="popen"),
                       Z("C17", scen="pump"), Z("C20", scen="inot"), Z("C05", scen="timers")], quick=75000, thorough=1200000, quick_s=60, nontrivial=["cycles"], level="exploration"),
    "C20": dict(parts=[Z("C20", scen="inot")], quick=40000, thorough=800000, nontrivial=["inot_cb"], level="exploration"),
}

ASSUMPTIONS = [
    "Linux epoll/poll/eventfd/pipe/AF_UNIX/inotify semantics of the running kernel are real and part of the trusted base; "
    "they are deterministic under the serialised use the simulator makes of them (validated by the hash re-execution sample)",
    "context switches happen only at intercepted libc calls (sound for data-race-free code; C14 checks race freedom)",
    "timerfd, signals, child processes and time are simulator models (sim/simk.c), deliberately permissive",
    "glibc and the sanitizer run-times are trusted",
    "sampling, not proof: a clean batch is evidence for the explored seeds only",
]
COMPONENTS = {
    "real": ["all of ivykis (/repo/src, unmodified, recompiled by the check)", "glibc pthread mutex/spin/TLS/key destructors/thread create+join",
             "Linux epoll, poll, eventfd, pipes, AF_UNIX sockets, inotify, splice"],
    "real_but_puppeteered": ["really forked children in a few runs (popen wiring through /bin/sh, fork-child signal guard, raw-event post from a child): the simulated world stands still until they are done"],
    "simulated": ["clock", "blocking and time-outs of epoll_wait/epoll_pwait2/poll/ppoll", "timerfd", "thread scheduling",
                  "signal dispositions, masks, pending sets and delivery", "child processes (fork/wait4/kill)", "fault outcomes"],
}


def known_findings():
    p = os.path.join(VERIF, "known_findings.json")
    if not os.path.exists(p):
        return []
    with open(p) as f:
        return json.load(f).get("findings", [])


def parse_fields(seg):
    d = {}
    for tok in seg.split():
        if "=" in tok:
            k, v = tok.split("=", 1)
            d[k] = v
    return d


def parse_run_line(line):
    """RUN i=.. seed=.. secs=.. [variant=..] | R ... | V id desc | P ... | C ... | O ... | F ..."""
    segs = [s.strip() for s in line.split(" | ")]
    head = parse_fields(segs[0])
    r = dict(i=int(head.get("i", -1)), seed=int(head.get("seed", 0)), secs=float(head.get("secs", 0)),
             variant=head.get("variant", ""), viol=[], probes={}, cbs={}, ops={}, faults={}, R={})
    for s in segs[1:]:
        if s.startswith("R "):
            r["R"] = parse_fields(s[2:])
        elif s.startswith("V "):
            parts = s[2:].split(" ", 1)
            r["viol"].append((parts[0], parts[1] if len(parts) > 1 else ""))
        elif s.startswith("P"):
            r["probes"] = {k: int(v) for k, v in parse_fields(s[1:]).items()}
        elif s.startswith("C"):
            r["cbs"] = {k: int(v) for k, v in parse_fields(s[1:]).items()}
        elif s.startswith("O"):
            r["ops"] = {k: int(v) for k, v in parse_fields(s[1:]).items()}
        elif s.startswith("F"):
            r["faults"] = {k: int(v) for k, v in parse_fields(s[1:]).items()}
    return r


def relevant(prop, vid, variant="", faults=None, probes=None):
    if prop == "C07" and probes and (probes.get("reg_failed_event") or probes.get("try_failed") or probes.get("reg_failed_ext")):
        # "a registration call that reports failure leaves the loop exactly as it was": whatever goes
        # wrong in a run after such a failure is C07's to report, whichever oracle notices it
        return True
    if prop == "C06" and probes and probes.get("task_ran") and vid in (
            "C04.oversleep", "C04.starved", "C05.independence", "C02.sleep_on_ready", "C02.starved", "C08.lost", "C09.lost",
            "C07.block_with_due"):
        # "tasks that keep re-registering ... do not prevent descriptors, timers and events from being
        # serviced": in the task plans, something that is not serviced is C06's to report
        return True
    if prop == "C15":
        # "the observable behaviour of the loop is the same under every available poll method", under
        # every enumerated fault and under the faults of the plan itself: every guarantee of the other
        # properties has to hold in every run of this check, the fault-free base runs (whose poll method
        # and exclusion style are drawn per plan) included
        return True
    return vid.startswith(prop + ".") or vid.startswith("ANY.") or vid.startswith("SIM.")


class Agg:
    def __init__(self, prop, cfg):
        self.prop, self.cfg = prop, cfg
        self.runs = 0
        self.status = {}
        self.hashes = set()
        self.nontrivial_hashes = set()
        self.sched_hashes = set()
        self.probes, self.cbs, self.ops, self.faults, self.methods = {}, {}, {}, {}, {}
        self.vtime = 0
        self.steps = 0
        self.switches = 0
        self.secs = 0.0
        self.viol = []          # (flavour, run)
        self.notes = {}
        self.sample_plain = self.sample_fault = self.sample_sw = None
        self.enum_variants = 0
        self.enum_bases = 0
        self.resampled = 0
        self.line_coverage = None

    def add(self, flavour, r):
        self.runs += 1
        R = r["R"]
        st = int(R.get("status", 1))
        self.status[st] = self.status.get(st, 0) + 1
        h = R.get("hash", "")
        self.hashes.add(h)
        self.sched_hashes.add(R.get("shash", ""))
        for k in ("trunc", "shortio", "eintr", "tfd_armed", "tfd_cleared", "tfd_nudged", "sigdel", "forks", "reaps", "pidreuse", "libthreads"):
            if k in R:
                r["probes"]["sim_" + k] = int(R[k])
        if all(r["probes"].get(p, 0) > 0 for p in self.cfg["nontrivial"]) and \
           (not self.cfg.get("nontrivial_any") or any(r["probes"].get(p, 0) > 0 for p in self.cfg["nontrivial_any"])):
            self.nontrivial_hashes.add(h)
        for src, dst in ((r["probes"], self.probes), (r["cbs"], self.cbs), (r["ops"], self.ops), (r["faults"], self.faults)):
            for k, v in src.items():
                dst[k] = dst.get(k, 0) + v
        m = R.get("method", "?")
        self.methods[m] = self.methods.get(m, 0) + 1
        self.vtime += int(R.get("vtime", 0))
        self.steps += int(R.get("steps", 0))
        self.switches += int(R.get("switches", 0))
        self.secs += r["secs"]
        if r["viol"]:
            rel = [v for v in r["viol"] if relevant(self.prop, v[0], r["variant"], r["faults"], r["probes"])]
            if rel:
                self.viol.append((flavour, r))
            else:
                for v in r["viol"]:
                    self.notes[v[0]] = self.notes.get(v[0], 0) + 1
        sw = int(R.get("switches", 0))
        if self.sample_plain is None and not r["faults"]:
            self.sample_plain = r
        if self.sample_fault is None and r["faults"]:
            self.sample_fault = r
        if self.sample_sw is None or sw > int(self.sample_sw["R"].get("switches", 0)):
            self.sample_sw = r


# VERIF_OUT redirects evidence and replay files (used by the mutation sweep, which must not touch the committed evidence)
OUTROOT = os.environ.get("VERIF_OUT", VERIF)
WSEQ = 0
OWNER = ""	# the property whose check is running: only its violations end a batch early


def run_workers(exe, mode, scen, prop, tier, base, total, outdir, seconds):
    per = (total + NWORKERS - 1) // NWORKERS
    procs = []
    for w in range(NWORKERS):
        start = w * per
        cnt = min(per, total - start)
        if cnt <= 0:
            break
        cmd = [exe, mode, scen, prop, str(tier), str(base), str(start), str(cnt), outdir, str(seconds)]
        # every worker writes to a file of its own: with pipes read one after the other, a worker whose pipe
        # is full (64 KiB, a few dozen result lines) stands still until all workers before it have finished
        global WSEQ
        WSEQ += 1
        path = os.path.join(outdir, "worker-%d.out" % WSEQ)
        f = open(path, "w")
        procs.append((subprocess.Popen(cmd, stdout=f, stderr=subprocess.DEVNULL, env=dict(os.environ, IVSIM_OWNER=OWNER)), f, path))
    for p, f, path in procs:
        p.wait()
        f.close()
        with open(path, errors="replace") as g:
            for line in g:
                yield line.rstrip("\n")
        os.unlink(path)
        if p.returncode != 0:
            yield "WORKERFAIL rc=%d" % p.returncode


def exec_plan(exe, path, outdir, record=None):
    cmd = [exe, "exec", path]
    if record:
        cmd += ["-o", record]
    env = dict(os.environ, IVSIM_OUTDIR=outdir)
    r = subprocess.run(cmd, stdout=subprocess.PIPE, stderr=subprocess.DEVNULL, text=True, env=env)
    vids, h, desc = [], "", []
    for line in r.stdout.splitlines():
        if line.startswith("V "):
            parts = line[2:].split(" ", 1)
            vids.append(parts[0])
            desc.append(parts[1] if len(parts) > 1 else "")
        elif line.startswith("R "):
            h = parse_fields(line[2:]).get("hash", "")
    return vids, h, desc, r.stdout


def minimise(exe, cand, prop, target, outdir, budget=600):
    """ddmin over op / fault lines, then simplification of the configuration and the
    decision stream; the violation id `target` must persist."""
    with open(cand) as f:
        lines = [l.rstrip("\n") for l in f]
    fixed = [l for l in lines if not (l.startswith("op ") or l.startswith("fault ") or l.startswith("sched") or l.startswith("obj ") or
                                      l.startswith("expect") or l.startswith("hash") or l.startswith("log ") or l.startswith("desc "))]
    ops = [l for l in lines if l.startswith("obj ") or l.startswith("op ") or l.startswith("fault ")]
    sched = [l for l in lines if l.startswith("sched")]
    tries = [0]
    tmp = os.path.join(outdir, "min.plan")
    tstart = time.time()

    def test(fx, op, sc):
        if tries[0] >= budget or time.time() - tstart > 90:
            return False
        tries[0] += 1
        with open(tmp, "w") as f:
            f.write("\n".join(fx + op + sc) + "\n")
        vids, _, _, _ = exec_plan(exe, tmp, outdir)
        return target in vids

    if not test(fixed, ops, sched):
        return None, tries[0]
    # 1. ddmin on operations and faults
    n = 2
    while len(ops) >= 2 and tries[0] < budget:
        chunk = max(1, len(ops) // n)
        reduced = False
        for i in range(0, len(ops), chunk):
            cand_ops = ops[:i] + ops[i + chunk:]
            if test(fixed, cand_ops, sched):
                ops = cand_ops
                n = max(n - 1, 2)
                reduced = True
                break
        if not reduced:
            if chunk == 1:
                break
            n = min(n * 2, len(ops))
    # 2. decisions: drop the stream (all zero = never preempt), else truncate
    if sched:
        if test(fixed, ops, []):
            sched = []
        else:
            toks = sched[0].split()[1:]
            lo, hi = 0, len(toks)
            while lo < hi and tries[0] < budget:
                mid = (lo + hi) // 2
                if test(fixed, ops, ["sched " + " ".join(toks[:mid])] if mid else []):
                    hi = mid
                else:
                    lo = mid + 1
            sched = ["sched " + " ".join(toks[:hi])] if hi else []
            if not test(fixed, ops, sched):
                sched = [l for l in lines if l.startswith("sched")]
    # 3. neutral knobs
    for pat, rep in ((r"ycost=\d+", "ycost=0"), (r"btrunc=\d+", "btrunc=0"), (r"xstyle=\d+", "xstyle=0")):
        fx2 = [re.sub(pat, rep, l) if l.startswith("cfg ") else l for l in fixed]
        if fx2 != fixed and test(fx2, ops, sched):
            fixed = fx2
    with open(tmp, "w") as f:
        f.write("\n".join(fixed + ops + sched) + "\n")
    return tmp, tries[0]


def finding_matches(entry, prop, vid, desc):
    if entry.get("property") != prop or entry.get("status", "known") != "known":
        return False
    if entry.get("id") and entry["id"] != vid:
        return False
    return re.search(entry.get("match", "$^"), desc) is not None


def handle_violations(agg, exes, outdir, prop, tier):
    """minimise, gate and report; returns (n_violation_lines, n_known)"""
    seen = {}
    nviol = nknown = unstable = 0
    kf = known_findings()
    os.makedirs(os.path.join(OUTROOT, "replays"), exist_ok=True)
    for flavour, r in agg.viol:
        rel = [v for v in r["viol"] if relevant(prop, v[0], r["variant"], r["faults"], r["probes"])]
        vid, desc = rel[0]
        # one report per (id, stable description)
        sig = vid + "|" + re.sub(r"\d+", "N", desc)[:80]
        if sig in seen:
            seen[sig] += 1
            continue
        seen[sig] = 1
        exe = exes[flavour]
        suffix = ""
        cands = [n for n in os.listdir(outdir) if n.startswith("cand-%s-%d" % (r["part"]["profile"], r["seed"]))]
        if r["variant"] and r["variant"] != "base":
            pass
        cand = None
        for n in sorted(cands):
            vids, _, _, _ = exec_plan(exe, os.path.join(outdir, n), outdir)
            if vid in vids:
                cand = os.path.join(outdir, n)
                break
        if cand is None and vid == "ANY.hang":
            # the real-time watchdog (25 s without progress) is the one judgement that depends on how busy the
            # machine is: a genuine hang replays, a run that completes when it is executed again was starved
            print("NOTE property=%s seed %d hit the real-time watchdog once and completes when replayed (machine load): ignored" % (prop, r["seed"]))
            del seen[sig]
            continue
        if cand is None:
            print("UNSTABLE property=%s violation %s of seed %d did not reproduce from its replay candidate" % (prop, vid, r["seed"]))
            unstable += 1
            del seen[sig]
            continue
        known = [e for e in kf if finding_matches(e, prop, vid, desc)]
        if known:
            nknown += 1
            print("KNOWN-FINDING: property=%s %s (%s) seed=%d" % (prop, known[0].get("what", vid), vid, r["seed"]))
            continue
        if vid == "ANY.hang":
            mini, tries = None, 0       # every execution costs a watchdog period: report the recorded plan as it is
        else:
            mini, tries = minimise(exe, cand, prop, vid, outdir)
        if mini is None:
            mini = cand
        final = os.path.join(OUTROOT, "replays", "%s-%s-%d%s.plan" % (prop, vid.replace(".", "_"), r["seed"], suffix))
        # re-record decisions + expectation, then gate: two fresh executions must agree
        exec_plan(exe, mini, outdir, record=final)
        with open(final, "a") as f:
            f.write("note flavour %s\n" % flavour)
        v1, h1, d1, _ = exec_plan(exe, final, outdir)
        v2, h2, d2, _ = exec_plan(exe, final, outdir)
        if vid not in v1 or vid not in v2 or h1 != h2:
            print("UNSTABLE property=%s replay of %s is not reproducible (%s/%s, %s/%s): not reported, trying another run" % (prop, final, v1, v2, h1, h2))
            unstable += 1
            del seen[sig]
            os.unlink(final)
            continue
        d = d1[v1.index(vid)]
        known = [e for e in kf if finding_matches(e, prop, vid, d)]
        if known:
            nknown += 1
            print("KNOWN-FINDING: property=%s %s (%s) seed=%d" % (prop, known[0].get("what", vid), vid, r["seed"]))
            os.unlink(final)
            continue
        nviol += 1
        print("VIOLATION property=%s replay=%s" % (prop, final))
        print("  id=%s seed=%d flavour=%s minimised_in=%d executions" % (vid, r["seed"], flavour, tries))
        print("  %s" % d)
    if nviol == 0 and nknown == 0 and unstable > 0:
        # violations were seen but none replays exactly: that is a fault of the machinery (or a library so broken
        # that it behaves irreproducibly), never a verdict
        print("MACHINERY-FAULT property=%s %d violating run(s), none of which replays reproducibly" % (prop, unstable))
        return -1, nknown
    return nviol, nknown


def coverage_pass(cfg, tier, base, outdir):
    """reach measure: line coverage of the library sources over a sample of this check's runs (cov flavour)"""
    try:
        exe = ivbuild.build("cov")
        env = dict(os.environ, LLVM_PROFILE_FILE=os.path.join(outdir, "cov-%4m.profraw"))
        n = int(os.environ.get("VERIF_COV_RUNS", "1600"))
        procs = []
        for fi, part in enumerate(cfg["parts"]):
            if part["flav"] == "tsan" and len(cfg["parts"]) > 4 and fi > 4:
                continue
            share = max(50, n // len(cfg["parts"]))
            per = (share + 7) // 8
            for w in range(8):
                cmd = [exe, part["mode"], part["scen"], part["profile"], str(tier), str(base + 1000003 * fi), str(w * per),
                       str(per if part["mode"] == "batch" else max(1, per // 40)), outdir, "60"]
                procs.append(subprocess.Popen(cmd, stdout=subprocess.DEVNULL, stderr=subprocess.DEVNULL, env=env))
        for p in procs:
            p.wait()
        raws = [os.path.join(outdir, f) for f in os.listdir(outdir) if f.endswith(".profraw")]
        if not raws:
            return {}
        prof = os.path.join(outdir, "cov.profdata")
        subprocess.run(["llvm-profdata-14", "merge", "-o", prof] + raws, check=True, stdout=subprocess.DEVNULL, stderr=subprocess.DEVNULL)
        out = subprocess.run(["llvm-cov-14", "export", "-summary-only", "-instr-profile", prof, exe], stdout=subprocess.PIPE,
                             stderr=subprocess.DEVNULL, text=True).stdout
        res = {}
        for f in json.loads(out)["data"][0]["files"]:
            name = f["filename"]
            if "/src/" in name and "/verif/" not in name and name.endswith(".c"):
                s = f["summary"]["lines"]
                res[os.path.basename(name)] = "%d/%d lines (%.0f%%)" % (s["covered"], s["count"], s["percent"])
        return res
    except Exception as ex:  # coverage is a reach measure only: never fail a check because of it
        return {"error": str(ex)}


def sample_plan(exe, scen, prop, seed, tier, maxlines=60):
    r = subprocess.run([exe, "gen", scen, prop, str(seed), str(tier)], stdout=subprocess.PIPE, text=True)
    lines = r.stdout.splitlines()
    if len(lines) > maxlines:
        lines = lines[:maxlines] + ["... (%d more lines)" % (len(lines) - maxlines)]
    return lines


def check(prop, tier_name):
    if prop not in PROPS:
        print("unknown property %s" % prop)
        return 2
    cfg = PROPS[prop]
    tier = 1 if tier_name == "thorough" else 0
    base = int(os.environ.get("VERIF_SEED", "1"))
    t0 = time.time()
    flavs = sorted(set(p["flav"] for p in cfg["parts"]))
    exes = {fl: ivbuild.build(fl) for fl in flavs}
    total = cfg["thorough" if tier else "quick"]
    total = int(os.environ.get("VERIF_RUNS", total))
    seconds = float(os.environ.get("VERIF_SECONDS", cfg.get("thorough_s", 780) if tier else cfg.get("quick_s", 50)))
    outdir = tempfile.mkdtemp(prefix="ivsim-%s-" % prop, dir=os.environ.get("TMPDIR", "/dev/shm"))
    global OWNER
    OWNER = prop
    agg = Agg(prop, cfg)
    machinery = 0
    first_pass = {}
    resample = min(200, max(30, total // 100))
    try:
        wsum = sum(p["w"] for p in cfg["parts"])
        work = [(fi, part, max(1, total * part["w"] // wsum), seconds * part["w"] / wsum) for fi, part in enumerate(cfg["parts"])]
        # extra parts have a run count and a time budget of their own (plain exploration next to an enumeration)
        xp = cfg.get("extra_parts", [])
        for xi, part in enumerate(xp):
            work.append((len(cfg["parts"]) + xi, part, cfg["extra_runs"] * (20 if tier else 1) // len(xp),
                         float(os.environ.get("VERIF_SECONDS", cfg["extra_s"] * (8 if tier else 1))) / len(xp)))
            if part["flav"] not in exes:
                exes[part["flav"]] = ivbuild.build(part["flav"])
        for fi, part, share, secs in work:
            fl = part["flav"]
            if fl == "tsan":
                os.environ["TSAN_OPTIONS"] = "log_path=%s/tsan suppressions=%s/sim/tsan.supp" % (outdir, VERIF)
            for line in run_workers(exes[fl], part["mode"], part["scen"], part["profile"], tier, base + 1000003 * fi, share, outdir,
                                    secs):
                if line.startswith("RUN "):
                    r = parse_run_line(line)
                    r["part"] = part
                    agg.add(fl, r)
                    if fi == 0 and r["i"] < resample and not r["variant"]:
                        first_pass[r["seed"]] = (r["R"].get("hash"), r["R"].get("shash"), r["R"].get("status"))
                elif line.startswith("ENUM "):
                    f = parse_fields(line)
                    agg.enum_bases += 1
                    agg.enum_variants += int(f.get("variants", 0))
                elif line.startswith("WORKERFAIL"):
                    machinery += 1
        # determinism sample: re-execute about 1% of the seeds in another process; every event-log hash must agree
        nondet = 0
        if first_pass and cfg["parts"][0]["mode"] == "batch":
            part = cfg["parts"][0]
            cmd = [exes[part["flav"]], "batch", part["scen"], part["profile"], str(tier), str(base), "0", str(resample), outdir, "120"]
            out = subprocess.run(cmd, stdout=subprocess.PIPE, stderr=subprocess.DEVNULL, text=True).stdout
            for line in out.splitlines():
                if line.startswith("RUN "):
                    r = parse_run_line(line)
                    agg.resampled += 1
                    got = (r["R"].get("hash"), r["R"].get("shash"), r["R"].get("status"))
                    if r["seed"] in first_pass and first_pass[r["seed"]] != got and got[2] == "0" and first_pass[r["seed"]][2] == "0":
                        nondet += 1
                        print("MACHINERY-FAULT property=%s seed %d executed twice gives different event logs: %s vs %s" % (prop, r["seed"], first_pass[r["seed"]], got))
            machinery += nondet
        if tier or os.environ.get("VERIF_COV"):
            agg.line_coverage = coverage_pass(cfg, tier, base, outdir)
        nviol, nknown = handle_violations(agg, exes, outdir, prop, tier) if agg.viol else (0, 0)
        wall = time.time() - t0
        ev = evidence(prop, tier_name, base, cfg, agg, wall, nviol, exes)
        os.makedirs(os.path.join(OUTROOT, "evidence"), exist_ok=True)
        with open(os.path.join(OUTROOT, "evidence", prop + ".json"), "w") as f:
            json.dump(ev, f, indent=1)
        for k, v in sorted(agg.notes.items()):
            print("NOTE property=%s saw %d run(s) violating another property's oracle %s (decided by that property's own check)" % (prop, v, k))
        print("SUMMARY property=%s tier=%s runs=%d distinct_nontrivial=%d interleavings=%d inconclusive=%d violations=%d known=%d wall=%.1fs runs_per_hour=%d"
              % (prop, tier_name, agg.runs, len(agg.nontrivial_hashes), len(agg.sched_hashes), agg.status.get(2, 0), max(nviol, 0), nknown, wall,
                 int(agg.runs / max(wall, 0.001) * 3600)))
        if nviol > 0:
            # a violation that replays exactly (gated twice) is a verdict whatever else went wrong in the batch
            return 1
        if machinery or nviol < 0 or agg.runs == 0:
            print("MACHINERY-FAULT property=%s workers failed=%d runs=%d" % (prop, machinery, agg.runs))
            return 2
        return 0
    finally:
        shutil.rmtree(outdir, ignore_errors=True)


def evidence(prop, tier_name, base, cfg, agg, wall, nviol, exes):
    exe = list(exes.values())[0]
    tier = 1 if tier_name == "thorough" else 0
    samples = []
    for tag, r in (("plain", agg.sample_plain), ("with_faults", agg.sample_fault), ("most_context_switches", agg.sample_sw)):
        if r is not None:
            samples.append(dict(kind=tag, seed=r["seed"], variant=r["variant"], scenario=r["part"]["scen"], profile=r["part"]["profile"],
                                flavour=r["part"]["flav"], result=r["R"], probes=r["probes"],
                                plan=sample_plan(exes[r["part"]["flav"]], r["part"]["scen"], r["part"]["profile"], r["seed"], tier)))
    if not samples:
        samples = ["no run completed"]
    unreached = [p for p in cfg.get("expect_probes", []) if agg.probes.get(p, 0) == 0]
    cov = dict(
        evaluations=agg.runs,
        distinct_nontrivial=len(agg.nontrivial_hashes),
        rule="one evaluation = one simulated run of a seeded plan (scenario/profile/flavour parts: %s) executed against the real library "
             "under the simulator; distinct = distinct 64-bit hashes of the complete event log (scheduler decisions, waits, clock reads, "
             "API calls, callbacks, faults); non-trivial = the run fired all of these probes at least once: %s"
             % ("; ".join("%s/%s/%s%s" % (p["scen"], p["profile"], p["flav"], "/enum" if p["mode"] == "enum" else "") for p in cfg["parts"] + cfg.get("extra_parts", [])),
                ", ".join(cfg["nontrivial"]) + (" and at least one of: " + ", ".join(cfg["nontrivial_any"]) if cfg.get("nontrivial_any") else "")),
        samples=samples,
        distinct_event_logs=len(agg.hashes),
        distinct_interleavings=len(agg.sched_hashes),
        interleaving_measure="distinct hashes of the scheduler/signal decision stream",
        run_status=dict(ok=agg.status.get(0, 0), violation=agg.status.get(1, 0), inconclusive_budget=agg.status.get(2, 0)),
        simulated_time_s=agg.vtime / 1e9,
        steps=agg.steps,
        context_switches=agg.switches,
        runs_per_hour=int(agg.runs / max(wall, 0.001) * 3600),
        seeds="run i of part k uses mix(VERIF_SEED=%d + 1000003*k, profile, i)" % base,
        faults_fired=agg.faults,
        fault_site_names={"1": "wait EINTR", "2": "epoll_pwait2 ENOSYS/EPERM", "3": "ppoll ENOSYS", "4": "epoll_create1 ENOSYS",
                          "5": "epoll_create ENOSYS", "6": "timerfd_create ENOSYS", "7": "eventfd2 EINVAL/ENOSYS/EMFILE",
                          "8": "eventfd ENOSYS/EMFILE", "9": "pipe EMFILE", "10": "pipe2 ENOSYS", "11": "splice",
                          "12": "kick epoll_ctl ADD ENOSPC", "13": "write error", "14": "read error", "15": "fork EAGAIN", "16": "pthread_create EAGAIN", "17": "inotify_init EMFILE", "18": "inotify_add_watch ENOSPC", "19": "library read EINTR/EAGAIN"},
        poll_methods=agg.methods,
        probes=agg.probes,
        callbacks=agg.cbs,
        operations=agg.ops,
        unreached_probes=unreached,
        other_property_oracles_seen=agg.notes,
        components=COMPONENTS,
        flavours=sorted(set(p["flav"] for p in cfg["parts"])),
    )
    if agg.line_coverage is not None:
        cov["library_line_coverage_sample"] = agg.line_coverage
    cov["determinism_resample"] = "%d seeds of this run were executed a second time in another process; all event-log hashes agreed" % agg.resampled
    if agg.enum_bases:
        cov["enumerated_base_plans"] = agg.enum_bases
        cov["enumerated_fault_variants"] = agg.enum_variants
    return dict(property_id=prop, tier=tier_name, seed=base, level=cfg["level"], coverage=cov,
                assumptions=ASSUMPTIONS, wall_s=round(wall, 2), violations=max(nviol, 0))


def replay(path):
    flavour = "asan"
    with open(path) as f:
        txt = f.read()
    m = re.search(r"^note flavour (\w+)", txt, re.M)
    if m:
        flavour = m.group(1)
    exp = re.search(r"^expect (\S+)", txt, re.M)
    exph = re.search(r"^hash (\S+)", txt, re.M)
    exe = ivbuild.build(flavour)
    outdir = tempfile.mkdtemp(prefix="ivsim-replay-", dir=os.environ.get("TMPDIR", "/dev/shm"))
    try:
        if flavour == "tsan":
            os.environ["TSAN_OPTIONS"] = "log_path=%s/tsan suppressions=%s/sim/tsan.supp" % (outdir, VERIF)
        vids, h, desc, out = exec_plan(exe, path, outdir)
        sys.stdout.write(out)
        ok = exp is not None and exp.group(1) in vids
        same = exph is not None and exph.group(1) == h
        print("REPLAY expect=%s got=%s hash_expected=%s hash_got=%s -> %s" % (
            exp.group(1) if exp else "-", ",".join(vids) or "-", exph.group(1) if exph else "-", h,
            "REPRODUCED" if ok and same else ("reproduced (different log hash)" if ok else "NOT reproduced")))
        return 0 if ok else 1
    finally:
        shutil.rmtree(outdir, ignore_errors=True)


def selftest_determinism(n):
    bad = 0
    outdir = tempfile.mkdtemp(prefix="ivsim-det-", dir=os.environ.get("TMPDIR", "/dev/shm"))
    try:
        done = set()
        for prop, cfg in sorted(PROPS.items()):
            for part in cfg["parts"]:
                key = (part["scen"], part["profile"], part["flav"])
                if key in done or part["mode"] != "batch":
                    continue
                done.add(key)
                fl = part["flav"]
                exe = ivbuild.build(fl)
                if fl == "tsan":
                    os.environ["TSAN_OPTIONS"] = "log_path=%s/tsan suppressions=%s/sim/tsan.supp" % (outdir, VERIF)
                maps = []
                for nw in (16, 5):
                    global NWORKERS
                    save = NWORKERS
                    NWORKERS = nw
                    m = {}
                    for line in run_workers(exe, "batch", part["scen"], part["profile"], 0, 424242, n, outdir, 600):
                        if line.startswith("RUN "):
                            r = parse_run_line(line)
                            m[r["seed"]] = (r["R"].get("hash"), r["R"].get("shash"), r["R"].get("status"))
                    NWORKERS = save
                    maps.append(m)
                diff = [s for s in maps[0] if maps[0][s] != maps[1].get(s)]
                print("determinism %s/%s/%s: %d seeds x 2 executions (16 and 5 workers), %d mismatches" % (key + (len(maps[0]), len(diff))))
                for s in diff[:5]:
                    print("   seed %d: %s vs %s" % (s, maps[0][s], maps[1].get(s)))
                bad += len(diff)
    finally:
        shutil.rmtree(outdir, ignore_errors=True)
    return 1 if bad else 0


def main():
    a = sys.argv[1:]
    if len(a) == 2 and a[0] == "replay":
        return replay(a[1])
    if a and a[0] == "selftest-determinism":
        return selftest_determinism(int(a[1]) if len(a) > 1 else 2000)
    if len(a) == 2 and a[1] in ("quick", "thorough"):
        return check(a[0], a[1])
    print(__doc__)
    return 2


if __name__ == "__main__":
    sys.exit(main())
