#!/usr/bin/env python3
"""Build ivsim for a flavour from /repo's current working tree.

The library sources are compiled unmodified; `objcopy --redefine-syms` then
renames their libc references to simk_* (sim/redirect.syms).  Objects are
cached under build/<flavour>/ keyed by a content hash of the inputs, so an
unchanged tree is compiled once and an edited tree is always rebuilt.
"""
import concurrent.futures
import fcntl
import hashlib
import os
import subprocess
import sys

VERIF = os.path.dirname(os.path.abspath(__file__))
REPO = os.environ.get("IVSIM_REPO", "/repo")
LIB = ["iv_avl", "iv_event", "iv_fatal", "iv_task", "iv_timer", "iv_tls", "iv_work",
       "iv_event_raw_posix", "iv_fd", "iv_fd_poll", "iv_fd_epoll", "iv_fd_pump",
       "iv_main_posix", "iv_popen", "iv_signal", "iv_thread_posix", "iv_tid_posix",
       "iv_time_posix", "iv_wait", "iv_inotify"]
HARNESS = ["plan", "gen", "genx", "genx2", "genx3", "genx4", "engine", "ext", "ext2", "ext3", "ext4", "main"]
SAN = {
    "asan": ["-fsanitize=address,undefined", "-fno-sanitize=null,alignment,object-size",
             "-fno-sanitize-recover=all", "-fno-omit-frame-pointer"],
    "tsan": ["-fsanitize=thread"],
    "plain": [],
    "cov": ["-fprofile-instr-generate", "-fcoverage-mapping"],
}
LINK = {
    "asan": ["-fsanitize=address,undefined"],
    "tsan": ["-fsanitize=thread"],
    "plain": [],
    "cov": ["-fprofile-instr-generate"],
}
CC = "clang"


def sha(paths, extra=""):
    h = hashlib.sha256(extra.encode())
    for p in sorted(paths):
        h.update(p.encode())
        try:
            with open(p, "rb") as f:
                h.update(f.read())
        except OSError:
            h.update(b"<missing>")
    return h.hexdigest()[:16]


def run(cmd):
    r = subprocess.run(cmd, stdout=subprocess.PIPE, stderr=subprocess.STDOUT, text=True)
    if r.returncode != 0:
        sys.stderr.write("BUILD FAILED: %s\n%s\n" % (" ".join(cmd), r.stdout))
        raise SystemExit(2)
    return r.stdout


def lib_inputs():
    src = os.path.join(REPO, "src")
    files = []
    for d in (src, os.path.join(src, "include")):
        for n in sorted(os.listdir(d)):
            if n.endswith((".c", ".h", ".in")):
                files.append(os.path.join(d, n))
    for n in ("config.h",):
        p = os.path.join(REPO, n)
        if os.path.exists(p):
            files.append(p)
    return files


def build(flavour):
    bdir = os.path.join(os.environ.get("IVSIM_BUILD", os.path.join(VERIF, "build")), flavour)
    os.makedirs(bdir, exist_ok=True)
    lock = open(os.path.join(bdir, ".lock"), "w")
    fcntl.flock(lock, fcntl.LOCK_EX)
    try:
        return _build(flavour, bdir)
    finally:
        fcntl.flock(lock, fcntl.LOCK_UN)


def _build(flavour, bdir):
    san = SAN[flavour]
    cfgdir = os.path.join(bdir, "cfg")
    os.makedirs(cfgdir, exist_ok=True)
    # config.h / iv.h: the tree's own build products when present, else the fallback copies
    incs = []
    if os.path.exists(os.path.join(REPO, "config.h")):
        incs.append("-I" + REPO)
    else:
        incs.append("-I" + os.path.join(VERIF, "sim", "cfg"))
    ivh = os.path.join(REPO, "src", "include", "iv.h")
    if not os.path.exists(ivh):
        with open(os.path.join(REPO, "src", "include", "iv.h.in")) as f:
            txt = f.read().replace("@ac_cv_timespec_hdr@", "sys/time.h")
        with open(os.path.join(cfgdir, "iv.h"), "w") as f:
            f.write(txt)
        incs.append("-I" + cfgdir)
    incs += ["-I" + os.path.join(REPO, "src"), "-I" + os.path.join(REPO, "src", "include")]

    redirect = os.path.join(VERIF, "sim", "redirect.syms")
    libhash = sha(lib_inputs() + [redirect], flavour + " ".join(san))
    ldir = os.path.join(bdir, "lib-" + libhash)
    jobs = []
    if not os.path.exists(os.path.join(ldir, ".done")):
        os.makedirs(os.path.join(ldir, "raw"), exist_ok=True)
        for n in LIB:
            src = os.path.join(REPO, "src", n + ".c")
            raw = os.path.join(ldir, "raw", n + ".o")
            out = os.path.join(ldir, n + ".o")
            jobs.append(([CC, "-c", "-g", "-O1", "-D_GNU_SOURCE", "-U_FORTIFY_SOURCE", "-w"] + san + incs +
                         [src, "-o", raw],
                         ["objcopy", "--redefine-syms=" + redirect, raw, out]))
    hsrc = [os.path.join(VERIF, "harness", n + ".c") for n in HARNESS]
    hdeps = hsrc + [os.path.join(VERIF, "harness", "hz.h"), os.path.join(VERIF, "harness", "engine.h"), os.path.join(VERIF, "harness", "ext.h"),
                    os.path.join(VERIF, "sim", "simk.h"), os.path.join(VERIF, "sim", "simk.c")]
    hhash = sha(hdeps, flavour + "h2")
    hdir = os.path.join(bdir, "h-" + hhash)
    hsan = [] if flavour == "tsan" else san
    if not os.path.exists(os.path.join(hdir, ".done")):
        os.makedirs(hdir, exist_ok=True)
        for n in HARNESS:
            jobs.append(([CC, "-c", "-g", "-O1", "-Wall", "-Wextra", "-Wno-unused-parameter",
                          "-Wno-missing-field-initializers"] + hsan + incs +
                         [os.path.join(VERIF, "harness", n + ".c"), "-o", os.path.join(hdir, n + ".o")], None))
        # the simulator core is never instrumented
        jobs.append(([CC, "-c", "-g", "-O1", "-Wall", "-Wextra", "-Wno-unused-parameter", "-fno-builtin",
                      os.path.join(VERIF, "sim", "simk.c"), "-o", os.path.join(hdir, "simk.o")], None))

    def do(job):
        out = run(job[0])
        if job[1]:
            out += run(job[1])
        return out

    if jobs:
        with concurrent.futures.ThreadPoolExecutor(max_workers=16) as ex:
            for out in ex.map(do, jobs):
                if out.strip():
                    sys.stderr.write(out)
        open(os.path.join(ldir, ".done"), "w").close()
        open(os.path.join(hdir, ".done"), "w").close()

    exe = os.path.join(bdir, "ivsim-%s-%s" % (libhash, hhash))
    if not os.path.exists(exe):
        objs = [os.path.join(ldir, n + ".o") for n in LIB] + \
               [os.path.join(hdir, n + ".o") for n in HARNESS] + [os.path.join(hdir, "simk.o")]
        run([CC, "-g"] + LINK[flavour] + objs + ["-o", exe + ".tmp", "-lpthread"])
        os.rename(exe + ".tmp", exe)
        # drop stale executables and object directories of this flavour
        keep = {os.path.basename(exe), "lib-" + libhash, "h-" + hhash, "cfg", ".lock"}
        for n in os.listdir(bdir):
            if n not in keep:
                p = os.path.join(bdir, n)
                subprocess.run(["rm", "-rf", p])
    return exe


if __name__ == "__main__":
    fl = sys.argv[1:] or ["asan"]
    for f in fl:
        print(build(f))
