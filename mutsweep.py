#!/usr/bin/env python3
"""mutsweep.py -- mechanical mutation sweep: how sensitive are the checks?

  mutsweep.py <nworkers> <mutants-per-file> <seed> [file ...]

Generates small syntactic mutants of the library sources (statement deletion, negated condition,
relational / logical operator swap, off-by-one on a constant), and for each one, in a scratch git
worktree of /repo under /tmp (never in /repo itself):
  1. builds it and runs the repository's own test suite (`make check`); a mutant that fails to build
     or is killed by the existing tests is of no interest (the brief asks for changes the tests miss);
  2. runs the quick checks of the properties the mutated file is anchored in (reduced budget,
     IVSIM_REPO pointing at the worktree, VERIF_OUT pointing away from the committed evidence);
  3. records caught / missed in validation/mutsweep.jsonl.
Missed mutants are triaged by hand (equivalent mutant, outside every property, or a blind spot);
the triage is in validation/mutsweep.md.  Worktrees are removed at the end.
"""
import json
import os
import random
import re
import shutil
import subprocess
import sys
import threading
import time

VERIF = os.path.dirname(os.path.abspath(__file__))
FILEMAP = {
    "iv_fd.c": ["C02", "C03", "C01", "C07"],
    "iv_fd_epoll.c": ["C02", "C03", "C15", "C07"],
    "iv_fd_poll.c": ["C02", "C03", "C15", "C18"],
    "iv_timer.c": ["C04", "C05", "C18"],
    "iv_task.c": ["C06", "C07"],
    "iv_main_posix.c": ["C07", "C18", "C04"],
    "iv_event.c": ["C08", "C14", "C07"],
    "iv_event_raw_posix.c": ["C09", "C15", "C18"],
    "iv_signal.c": ["C10", "C14", "C19"],
    "iv_wait.c": ["C11", "C14", "C19"],
    "iv_work.c": ["C12", "C13", "C14", "C18"],
    "iv_thread_posix.c": ["C13", "C18"],
    "iv_popen.c": ["C19", "C18"],
    "iv_fd_pump.c": ["C17", "C15", "C18"],
    "iv_inotify.c": ["C20", "C01", "C18"],
    "iv_tls.c": ["C18", "C07"],
}
LOCK = threading.Lock()


def sh(cmd, cwd=None, env=None, timeout=900):
    try:
        r = subprocess.run(cmd, shell=True, cwd=cwd, env=env, stdout=subprocess.PIPE, stderr=subprocess.STDOUT, text=True, timeout=timeout)
        return r.returncode, r.stdout
    except subprocess.TimeoutExpired as e:
        return 124, (e.stdout or b"").decode("utf-8", "replace") if isinstance(e.stdout, bytes) else (e.stdout or "")


def strip_comments_mask(lines):
    """per line: True if the line is (part of) a comment or a preprocessor line"""
    mask = []
    inc = False
    for l in lines:
        t = l.strip()
        m = inc or t.startswith("#") or t.startswith("//") or t.startswith("/*") or t.startswith("*")
        if "/*" in l and "*/" not in l[l.index("/*"):]:
            inc = True
        elif inc and "*/" in l:
            inc = False
        mask.append(m)
    return mask


DECL = re.compile(r"^\s*(static|struct|const|unsigned|int|long|char|void|uint\w+|size_t|ssize_t|pid_t|sigset_t|pthread\w*|socklen_t|time_t)\b[^=(]*;\s*$")


def candidates(path):
    lines = open(path).read().split("\n")
    mask = strip_comments_mask(lines)
    out = []
    depth = 0
    for i, l in enumerate(lines):
        d0 = depth
        depth += l.count("{") - l.count("}")
        if mask[i] or d0 == 0:
            continue
        t = l.strip()
        # 1. statement deletion: a complete simple statement on one line
        if t.endswith(";") and not DECL.match(l) and not t.startswith(("return", "break", "continue", "goto", "case", "default", "}", "{", "else")) \
                and t.count("(") == t.count(")") and not t.startswith(("if", "for", "while", "do")):
            out.append((i, "del", l, re.sub(r"\S.*$", ";", l)))
        # 2. negated condition
        m = re.match(r"^(\s*(?:\}\s*else\s+)?if\s*)\((.*)\)(\s*\{?\s*)$", l)
        if m and m.group(2).count("(") == m.group(2).count(")"):
            out.append((i, "neg", l, "%s(!(%s))%s" % (m.group(1), m.group(2), m.group(3))))
        # 3. operator swaps (first occurrence on the line), code lines only
        if '"' not in l:
            for a, b in (("<=", "<"), (">=", ">"), ("==", "!="), ("!=", "=="), ("&&", "||"), ("||", "&&")):
                if a in l:
                    out.append((i, "op" + a, l, l.replace(a, b, 1)))
            m = re.search(r"(?<![<>=!-])([<>])(?![<>=])", l)
            if m and "->" not in l[max(0, m.start() - 1):m.start() + 1] and "#include" not in l:
                out.append((i, "op" + m.group(1), l, l[:m.start()] + m.group(1) + "=" + l[m.end():]))
            # 4. off by one on a small constant in a comparison or index
            m = re.search(r"([<>=!]=?\s*)(\d+)\b", l)
            if m and int(m.group(2)) < 1000:
                out.append((i, "const", l, l[:m.start(2)] + str(int(m.group(2)) + 1) + l[m.end(2):]))
            # 5. drop a logical negation
            m = re.search(r"\(!([a-zA-Z_])", l)
            if m:
                out.append((i, "unnot", l, l[:m.start() + 1] + l[m.start() + 2:]))
    return lines, out


def setup_worktree(i):
    wt = "/tmp/mw-%d" % i
    sh("git -C /repo worktree remove --force %s" % wt)
    shutil.rmtree(wt, ignore_errors=True)
    rc, out = sh("git -C /repo worktree add --detach %s HEAD" % wt)
    if rc:
        raise RuntimeError(out)
    rc, out = sh("autoreconf -i >/dev/null 2>&1 && ./configure >/dev/null 2>&1 && make -s -j4 >/dev/null 2>&1 && make -s check 2>&1 | grep -E '^# (PASS|FAIL)'", cwd=wt, timeout=1200)
    if "# PASS:  11" not in out.replace("PASS: 11", "PASS:  11"):
        raise RuntimeError("baseline suite does not pass in %s: %s" % (wt, out))
    return wt


def run_mutant(wt, wid, fname, lineno, kind, before, after, runs_env, outf):
    path = os.path.join(wt, "src", fname)
    orig = open(path).read()
    lines = orig.split("\n")
    assert lines[lineno] == before
    lines[lineno] = after
    rec = dict(file=fname, line=lineno + 1, op=kind, before=before.strip(), after=after.strip())
    try:
        open(path, "w").write("\n".join(lines))
        rc, out = sh("make -s -j4 2>&1 | tail -5", cwd=wt, timeout=300)
        if "error" in out.lower() or "Error" in out:
            rec["outcome"] = "build_failed"
            return rec
        rc, out = sh("timeout 150 make -s check 2>&1 | grep -E '^# (PASS|FAIL|ERROR)'", cwd=wt, timeout=200)
        mp = re.search(r"# PASS:\s+(\d+)", out)
        if not mp or mp.group(1) != "11":
            rec["outcome"] = "killed_by_tests"
            return rec
        env = dict(os.environ, IVSIM_REPO=wt, IVSIM_BUILD="/tmp/mw-build-%d" % wid, VERIF_WORKERS="4", VERIF_OUT="/tmp/mw-out-%d" % wid,
                   TMPDIR="/dev/shm", **runs_env)
        rec["checks"] = {}
        rec["outcome"] = "missed"
        for prop in FILEMAP[fname]:
            t0 = time.time()
            rc, out = sh("python3 %s/check.py %s quick" % (VERIF, prop), cwd=VERIF, env=env, timeout=900)
            ids = sorted(set(re.findall(r"^  id=(\S+)", out, re.M)))
            notes = re.findall(r"another property's oracle (\S+)", out)
            rec["checks"][prop] = dict(exit=rc, ids=ids, notes=notes, wall=round(time.time() - t0, 1))
            if rc == 1:
                rec["outcome"] = "caught"
                rec["caught_by"] = prop
                break
            if rc not in (0, 1):
                rec["outcome"] = "machinery"
                rec["tail"] = out.strip().splitlines()[-3:]
                rec["caught_by"] = prop
                break
        return rec
    finally:
        open(path, "w").write(orig)
        # the per-mutant library objects and executables are of no further use (harness objects stay cached)
        for fl in ("asan", "tsan"):
            d = "/tmp/mw-build-%d/%s" % (wid, fl)
            if os.path.isdir(d):
                for n in os.listdir(d):
                    if n.startswith(("lib-", "ivsim-")):
                        q = os.path.join(d, n)
                        shutil.rmtree(q, ignore_errors=True) if os.path.isdir(q) else os.unlink(q)
        shutil.rmtree("/tmp/mw-out-%d" % wid, ignore_errors=True)
        with LOCK:
            outf.write(json.dumps(rec) + "\n")
            outf.flush()
            print("[w%d] %s:%d %s -> %s %s" % (wid, fname, lineno + 1, kind, rec.get("outcome"), rec.get("caught_by", "")), flush=True)


def main():
    nw, per, seed = int(sys.argv[1]), int(sys.argv[2]), int(sys.argv[3])
    files = sys.argv[4:] or sorted(FILEMAP)
    rng = random.Random(seed)
    todo = []
    for f in files:
        lines, c = candidates(os.path.join("/repo/src", f))
        rng.shuffle(c)
        for (i, kind, before, after) in c[:per]:
            if before != after:
                todo.append((f, i, kind, before, after))
    rng.shuffle(todo)
    print("%d mutants over %d files" % (len(todo), len(files)), flush=True)
    runs_env = dict(VERIF_SECONDS=os.environ.get("MUT_SECONDS", "25"))
    os.makedirs(os.path.join(VERIF, "validation"), exist_ok=True)
    outf = open(os.path.join(VERIF, "validation", "mutsweep.jsonl"), "a")
    idx = [0]

    def worker(wid):
        wt = setup_worktree(wid)
        try:
            while True:
                with LOCK:
                    if idx[0] >= len(todo):
                        return
                    job = todo[idx[0]]
                    idx[0] += 1
                try:
                    run_mutant(wt, wid, *job, runs_env, outf)
                except Exception as e:  # keep sweeping
                    print("[w%d] error %s on %s" % (wid, e, job[:3]), flush=True)
                    sh("git checkout -- src", cwd=wt)
        finally:
            sh("git -C /repo worktree remove --force %s" % wt)
            shutil.rmtree("/tmp/mw-out-%d" % wid, ignore_errors=True)
            shutil.rmtree("/tmp/mw-build-%d" % wid, ignore_errors=True)

    ths = [threading.Thread(target=worker, args=(w,)) for w in range(nw)]
    for t in ths:
        t.start()
    for t in ths:
        t.join()
    sh("git -C /repo worktree prune")
    print("done")


if __name__ == "__main__":
    main()
